package client

// Bounded stand-in for C12, last clause (labelled bounded; never counted as proved): an in-memory
// double-hashed store is populated through the dhash functions exactly as an indexer would
// (second multihash -> encrypted value keys; SHA-256 of the value key -> encrypted metadata), and
// the real DHashClient (metadata-only mode, so no provider lookups are involved) must return, for
// each multihash, exactly the (provider, context ID, metadata) triples indexed for it, and nothing
// for multihashes that were not indexed; corrupt store entries are skipped without failing the query.

import (
	"bytes"
	"context"
	"fmt"
	"os"
	"sort"
	"testing"

	"github.com/ipni/go-libipni/dhash"
	"github.com/ipni/go-libipni/find/model"
	"github.com/libp2p/go-libp2p/core/peer"
	"github.com/multiformats/go-multihash"
)

type verifC12Store struct {
	vks map[string][][]byte // second multihash -> encrypted value keys
	mds map[string][]byte   // SHA-256(value key) -> encrypted metadata
}

func (s *verifC12Store) FindMultihash(ctx context.Context, dhmh multihash.Multihash) ([]model.EncryptedMultihashResult, error) {
	evks, ok := s.vks[string(dhmh)]
	if !ok {
		return nil, nil
	}
	return []model.EncryptedMultihashResult{{Multihash: dhmh, EncryptedValueKeys: evks}}, nil
}

func (s *verifC12Store) FindMetadata(ctx context.Context, hvk []byte) ([]byte, error) {
	return s.mds[string(hvk)], nil
}

func (s *verifC12Store) index(t *testing.T, mh multihash.Multihash, pid peer.ID, ctxID, md []byte) {
	vk := dhash.CreateValueKey(pid, ctxID)
	evk, err := dhash.EncryptValueKey(vk, mh)
	if err != nil {
		t.Fatal(err)
	}
	smh := dhash.SecondMultihash(mh)
	s.vks[string(smh)] = append(s.vks[string(smh)], evk)
	emd, err := dhash.EncryptMetadata(md, vk)
	if err != nil {
		t.Fatal(err)
	}
	s.mds[string(dhash.SHA256(vk, nil))] = emd
}

func TestVerifC12Find(t *testing.T) {
	ctx := context.Background()
	var pids []peer.ID
	for _, s := range []string{"12D3KooWNSRG5wTShNu6EXCPTkoH7dWsphKAPrbvQchHa5arfsDC", "12D3KooWHf7cahZvAVB36SGaVXc7fiVDoJdRJq42zDRcN2s2512h", "12D3KooWPNbkEgjdBNeaCGpsgCrPRETe4uBZf1ShFXStobdN18ys"} {
		p, err := peer.Decode(s)
		if err != nil {
			t.Fatal(err)
		}
		pids = append(pids, p)
	}
	var mhs []multihash.Multihash
	for i := 0; i < 6; i++ {
		mh, _ := multihash.Sum([]byte(fmt.Sprintf("content-%d", i)), multihash.SHA2_256, -1)
		mhs = append(mhs, mh)
	}
	ctxIDs := [][]byte{[]byte("c"), []byte("context-two"), bytes.Repeat([]byte{0xfe}, 64)}
	cases := 0
	type triple struct{ pid, ctx, md string }
	// every subset shape: mh k is indexed under the first k%4 providers x (k%3+1) context IDs
	store := &verifC12Store{vks: map[string][][]byte{}, mds: map[string][]byte{}}
	want := map[int][]triple{}
	for k := 0; k < len(mhs)-1; k++ {
		for pi := 0; pi < k%4 && pi < len(pids); pi++ {
			for ci := 0; ci <= k%3; ci++ {
				md := []byte(fmt.Sprintf("md-%d-%d", pi, ci))
				store.index(t, mhs[k], pids[pi], ctxIDs[ci], md)
				want[k] = append(want[k], triple{string(pids[pi]), string(ctxIDs[ci]), string(md)})
			}
		}
	}
	// corrupt entries for mh 3: a truncated value key and a value key encrypted for another multihash
	smh3 := dhash.SecondMultihash(mhs[3])
	if evks := store.vks[string(smh3)]; len(evks) > 0 {
		store.vks[string(smh3)] = append(store.vks[string(smh3)], evks[0][:5], []byte{})
	}
	foreign, _ := dhash.EncryptValueKey(dhash.CreateValueKey(pids[0], []byte("x")), mhs[4])
	store.vks[string(smh3)] = append(store.vks[string(smh3)], foreign)

	cl, err := NewDHashClient(WithDHStoreAPI(store), WithMetadataOnly(true))
	if err != nil {
		t.Fatal(err)
	}
	for k, mh := range mhs {
		resp, err := cl.Find(ctx, mh)
		if err != nil {
			t.Fatalf("multihash %d: %v", k, err)
		}
		var got []triple
		for _, mr := range resp.MultihashResults {
			if !bytes.Equal(mr.Multihash, mh) {
				t.Fatalf("multihash %d: results for another multihash", k)
			}
			for _, pr := range mr.ProviderResults {
				got = append(got, triple{string(pr.Provider.ID), string(pr.ContextID), string(pr.Metadata)})
			}
		}
		w := append([]triple(nil), want[k]...)
		less := func(s []triple) func(i, j int) bool {
			return func(i, j int) bool { return s[i].pid+"|"+s[i].ctx < s[j].pid+"|"+s[j].ctx }
		}
		sort.Slice(got, less(got))
		sort.Slice(w, less(w))
		if len(got) != len(w) {
			t.Fatalf("multihash %d: %d results, %d were indexed", k, len(got), len(w))
		}
		for i := range w {
			if got[i] != w[i] {
				t.Fatalf("multihash %d: result %d differs from what was indexed", k, i)
			}
		}
		cases++
	}
	fmt.Fprintf(os.Stdout, "CASES %d\n", cases)
}
