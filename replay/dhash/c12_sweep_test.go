package dhash

// Bounded stand-in for C12 (labelled bounded; never counted as proved): the contracts prove the
// dhash functions against assumed AES-GCM / SHA-256 behaviour; here the real primitives are run:
// round trips and determinism for a grid of payloads, and fail-closed behaviour of every Decrypt*
// on every truncation and single-byte corruption of valid ciphertexts and on short inputs.

import (
	"bytes"
	"fmt"
	"os"
	"testing"

	"github.com/libp2p/go-libp2p/core/peer"
	"github.com/multiformats/go-multihash"
)

func verifC12NoPanic(t *testing.T, what string, f func()) {
	defer func() {
		if r := recover(); r != nil {
			t.Fatalf("%s panicked: %v", what, r)
		}
	}()
	f()
}

func TestVerifC12Sweep(t *testing.T) {
	cases := 0
	var payloads [][]byte
	for _, n := range []int{0, 1, 2, 11, 12, 13, 15, 16, 17, 31, 32, 33, 63, 64, 65, 255, 256, 1000} {
		b := make([]byte, n)
		for i := range b {
			b[i] = byte(i*7 + n)
		}
		payloads = append(payloads, b)
	}
	passes := [][]byte{{}, {0}, []byte("pass"), bytes.Repeat([]byte{0xff}, 64)}
	for _, p := range payloads {
		for _, pw := range passes {
			nonce, ct, err := EncryptAES(p, pw)
			if err != nil {
				t.Fatalf("EncryptAES(len %d): %v", len(p), err)
			}
			nonce2, ct2, err := EncryptAES(p, pw)
			if err != nil || !bytes.Equal(nonce, nonce2) || !bytes.Equal(ct, ct2) {
				t.Fatalf("EncryptAES is not deterministic for payload len %d", len(p))
			}
			pt, err := DecryptAES(nonce, ct, pw)
			if err != nil || !bytes.Equal(pt, p) {
				t.Fatalf("AES round trip failed for payload len %d: %v", len(p), err)
			}
			cases++
			// wrong passphrase, every truncation, every single-byte corruption, every nonce length: error, never panic
			verifC12NoPanic(t, "DecryptAES(wrong passphrase)", func() {
				if _, err := DecryptAES(nonce, ct, append([]byte{1}, pw...)); err == nil {
					t.Fatalf("DecryptAES accepted a wrong passphrase (payload len %d)", len(p))
				}
			})
			if len(p) <= 33 {
				for k := 0; k < len(ct); k++ {
					verifC12NoPanic(t, "DecryptAES(truncated)", func() {
						if _, err := DecryptAES(nonce, ct[:k], pw); err == nil {
							t.Fatalf("DecryptAES accepted a ciphertext truncated to %d of %d bytes", k, len(ct))
						}
					})
					c2 := append([]byte(nil), ct...)
					c2[k] ^= 0x80
					verifC12NoPanic(t, "DecryptAES(corrupted)", func() {
						if _, err := DecryptAES(nonce, c2, pw); err == nil {
							t.Fatalf("DecryptAES accepted a corrupted ciphertext (byte %d)", k)
						}
					})
					cases += 2
				}
				for k := 0; k <= 24; k++ {
					if k == len(nonce) {
						continue
					}
					nn := make([]byte, k)
					copy(nn, nonce)
					verifC12NoPanic(t, fmt.Sprintf("DecryptAES(nonce of %d bytes)", k), func() {
						if _, err := DecryptAES(nn, ct, pw); err == nil {
							t.Fatalf("DecryptAES accepted a nonce of %d bytes", k)
						}
					})
					cases++
				}
			}
		}
	}
	// value keys and metadata
	mhs := []multihash.Multihash{}
	for _, s := range []string{"", "a", "some content"} {
		mh, err := multihash.Sum([]byte(s), multihash.SHA2_256, -1)
		if err != nil {
			t.Fatal(err)
		}
		mhs = append(mhs, mh)
	}
	pid, err := peer.Decode("12D3KooWHf7cahZvAVB36SGaVXc7fiVDoJdRJq42zDRcN2s2512h")
	if err != nil {
		t.Fatal(err)
	}
	for _, ctxID := range payloads[:10] {
		vk := CreateValueKey(pid, ctxID)
		gotPid, gotCtx, err := SplitValueKey(vk)
		if err != nil || gotPid != pid || !bytes.Equal(gotCtx, ctxID) {
			t.Fatalf("value key split failed for context ID len %d: %v", len(ctxID), err)
		}
		for _, mh := range mhs {
			enc, err := EncryptValueKey(vk, mh)
			if err != nil {
				t.Fatal(err)
			}
			enc2, _ := EncryptValueKey(vk, mh)
			if !bytes.Equal(enc, enc2) {
				t.Fatalf("EncryptValueKey is not deterministic")
			}
			dec, err := DecryptValueKey(enc, mh)
			if err != nil || !bytes.Equal(dec, vk) {
				t.Fatalf("value key round trip failed: %v", err)
			}
			cases++
			for k := 0; k < len(enc); k++ {
				verifC12NoPanic(t, "DecryptValueKey(truncated)", func() {
					if _, err := DecryptValueKey(enc[:k], mh); err == nil {
						t.Fatalf("DecryptValueKey accepted an input truncated to %d of %d bytes", k, len(enc))
					}
				})
				cases++
			}
			for _, other := range mhs {
				if !bytes.Equal(other, mh) {
					if _, err := DecryptValueKey(enc, other); err == nil {
						t.Fatalf("DecryptValueKey succeeded under another multihash")
					}
				}
			}
		}
		md := append([]byte("md"), ctxID...)
		em, err := EncryptMetadata(md, vk)
		if err != nil {
			t.Fatal(err)
		}
		dm, err := DecryptMetadata(em, vk)
		if err != nil || !bytes.Equal(dm, md) {
			t.Fatalf("metadata round trip failed: %v", err)
		}
		for k := 0; k < len(em); k++ {
			verifC12NoPanic(t, "DecryptMetadata(truncated)", func() {
				if _, err := DecryptMetadata(em[:k], vk); err == nil {
					t.Fatalf("DecryptMetadata accepted an input truncated to %d of %d bytes", k, len(em))
				}
			})
			cases++
		}
	}
	// SplitValueKey never panics on arbitrary short inputs
	for n := 0; n < 48; n++ {
		for _, fill := range []byte{0, 1, 0x12, 0x20, 0x7f, 0xff} {
			b := bytes.Repeat([]byte{fill}, n)
			verifC12NoPanic(t, "SplitValueKey", func() { SplitValueKey(b) })
			cases++
		}
	}
	for _, mh := range mhs {
		smh := SecondMultihash(mh)
		d, err := multihash.Decode(smh)
		if err != nil || d.Code != multihash.DBL_SHA2_256 || d.Length != 32 {
			t.Fatalf("SecondMultihash: code/length wrong: %v", err)
		}
		if !bytes.Equal(SecondMultihash(mh), smh) {
			t.Fatalf("SecondMultihash is not deterministic")
		}
		cases++
	}
	fmt.Fprintf(os.Stdout, "CASES %d\n", cases)
}
