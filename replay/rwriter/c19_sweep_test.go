package rwriter

// Bounded stand-in for C19 (labelled bounded; never counted as proved): result
// lists written through the response writer behind an httptest server are read
// back by the real find client; JSON mode end to end, streaming mode line by line.

import (
	"bufio"
	"context"
	"crypto/rand"
	"encoding/hex"
	"encoding/json"
	"fmt"
	"net/http"
	"net/http/httptest"
	"testing"

	"github.com/ipfs/go-cid"
	"github.com/ipni/go-libipni/apierror"
	"github.com/ipni/go-libipni/find/client"
	"github.com/ipni/go-libipni/find/model"
	"github.com/libp2p/go-libp2p/core/crypto"
	"github.com/libp2p/go-libp2p/core/peer"
	"github.com/multiformats/go-multiaddr"
	"github.com/multiformats/go-multihash"
)

func verifResults(t *testing.T) [][]model.ProviderResult {
	a1, _ := multiaddr.NewMultiaddr("/ip4/1.2.3.4/tcp/80/http")
	a2, _ := multiaddr.NewMultiaddr("/dns4/example.com/tcp/443/https")
	mkID := func() peer.ID {
		priv, _, err := crypto.GenerateEd25519Key(rand.Reader)
		if err != nil {
			t.Fatal(err)
		}
		id, err := peer.IDFromPrivateKey(priv)
		if err != nil {
			t.Fatal(err)
		}
		return id
	}
	p1 := &peer.AddrInfo{ID: mkID(), Addrs: []multiaddr.Multiaddr{a1}}
	p2 := &peer.AddrInfo{ID: mkID(), Addrs: []multiaddr.Multiaddr{a1, a2}}
	p3 := &peer.AddrInfo{ID: mkID()}
	ctxs := [][]byte{nil, {}, []byte("ctx"), {0x00, 0xff, 0x80, '"', '\\', '\n'}}
	mds := [][]byte{nil, {}, []byte("md"), {0xde, 0xad, 0x00}}
	var single []model.ProviderResult
	for _, p := range []*peer.AddrInfo{p1, p2, p3} {
		for i, c := range ctxs {
			single = append(single, model.ProviderResult{ContextID: c, Metadata: mds[(i+1)%len(mds)], Provider: p})
		}
	}
	lists := [][]model.ProviderResult{nil}
	for _, s := range single {
		lists = append(lists, []model.ProviderResult{s})
	}
	for i := 0; i+2 < len(single); i += 2 {
		lists = append(lists, []model.ProviderResult{single[i], single[i+1], single[i+2]})
	}
	lists = append(lists, single)
	return lists
}

func verifSame(a, b model.ProviderResult) bool {
	if string(a.ContextID) != string(b.ContextID) || string(a.Metadata) != string(b.Metadata) {
		return false
	}
	if (a.Provider == nil) != (b.Provider == nil) {
		return false
	}
	if a.Provider != nil {
		if a.Provider.ID != b.Provider.ID || len(a.Provider.Addrs) != len(b.Provider.Addrs) {
			return false
		}
		for i := range a.Provider.Addrs {
			if !a.Provider.Addrs[i].Equal(b.Provider.Addrs[i]) {
				return false
			}
		}
	}
	return true
}

func TestVerifC19RoundTrip(t *testing.T) {
	mh, err := multihash.Sum([]byte("content"), multihash.SHA2_256, -1)
	if err != nil {
		t.Fatal(err)
	}
	cases := 0
	for li, list := range verifResults(t) {
		list := list
		srv := httptest.NewServer(http.HandlerFunc(func(w http.ResponseWriter, r *http.Request) {
			rw, err := New(w, r, WithPreferJson(true))
			if err != nil {
				var ae *apierror.Error
				if !asErr(err, &ae) {
					t.Errorf("rwriter.New: non API error %v", err)
				}
				http.Error(w, err.Error(), http.StatusBadRequest)
				return
			}
			pw := NewProviderResponseWriter(rw)
			for _, pr := range list {
				if err := pw.WriteProviderResult(pr); err != nil {
					t.Errorf("write: %v", err)
				}
			}
			if err := pw.Close(); err != nil {
				var ae *apierror.Error
				if asErr(err, &ae) {
					http.Error(w, ae.Error(), ae.Status())
					return
				}
				t.Errorf("close: %v", err)
			}
		}))
		cl, err := client.New(srv.URL)
		if err != nil {
			t.Fatal(err)
		}
		// JSON mode through the real client
		cases++
		resp, err := cl.Find(context.Background(), mh)
		if err != nil {
			t.Fatalf("list %d: Find: %v", li, err)
		}
		if len(list) == 0 {
			if len(resp.MultihashResults) != 0 {
				t.Fatalf("list %d: empty result set read back as %d results", li, len(resp.MultihashResults))
			}
		} else {
			if len(resp.MultihashResults) != 1 || resp.MultihashResults[0].Multihash.B58String() != mh.B58String() {
				t.Fatalf("list %d: read back %d multihash results", li, len(resp.MultihashResults))
			}
			got := resp.MultihashResults[0].ProviderResults
			if len(got) != len(list) {
				t.Fatalf("list %d: %d results written, %d read", li, len(list), len(got))
			}
			for i := range list {
				if !verifSame(list[i], got[i]) {
					t.Fatalf("list %d: result %d differs after the round trip: wrote %+v read %+v", li, i, list[i], got[i])
				}
			}
		}
		// streaming mode: every line is one complete result, in order
		cases++
		req, _ := http.NewRequest(http.MethodGet, srv.URL+"/multihash/"+mh.B58String(), nil)
		req.Header.Set("Accept", "application/x-ndjson")
		hr, err := http.DefaultClient.Do(req)
		if err != nil {
			t.Fatal(err)
		}
		if len(list) == 0 {
			if hr.StatusCode != http.StatusNotFound {
				t.Fatalf("list %d: empty streaming result set answered with %d", li, hr.StatusCode)
			}
		} else {
			sc := bufio.NewScanner(hr.Body)
			sc.Buffer(make([]byte, 1<<20), 1<<20)
			n := 0
			for sc.Scan() {
				if len(sc.Bytes()) == 0 {
					continue
				}
				var pr model.ProviderResult
				if err := json.Unmarshal(sc.Bytes(), &pr); err != nil {
					t.Fatalf("list %d: line %d is not a complete result: %v", li, n, err)
				}
				if n >= len(list) || !verifSame(list[n], pr) {
					t.Fatalf("list %d: streamed line %d differs", li, n)
				}
				n++
			}
			if n != len(list) {
				t.Fatalf("list %d: %d results written, %d lines streamed", li, len(list), n)
			}
		}
		hr.Body.Close()
		// the same resource asked for as a CID (v1 and v0) and as a hex multihash
		for _, key := range []string{"/cid/" + cid.NewCidV1(cid.Raw, mh).String(), "/cid/" + cid.NewCidV0(mh).String(), "/multihash/" + hex.EncodeToString(mh)} {
			cases++
			req, _ := http.NewRequest(http.MethodGet, srv.URL+key, nil)
			req.Header.Set("Accept", "application/json")
			hr, err := http.DefaultClient.Do(req)
			if err != nil {
				t.Fatal(err)
			}
			if len(list) == 0 {
				if hr.StatusCode != http.StatusNotFound {
					t.Fatalf("list %d: %s: empty result set answered with %d", li, key, hr.StatusCode)
				}
				hr.Body.Close()
				continue
			}
			if hr.StatusCode != http.StatusOK {
				t.Fatalf("list %d: %s answered with %d", li, key, hr.StatusCode)
			}
			var fr model.FindResponse
			if err := json.NewDecoder(hr.Body).Decode(&fr); err != nil {
				t.Fatalf("list %d: %s: %v", li, key, err)
			}
			hr.Body.Close()
			if len(fr.MultihashResults) != 1 || fr.MultihashResults[0].Multihash.B58String() != mh.B58String() || len(fr.MultihashResults[0].ProviderResults) != len(list) {
				t.Fatalf("list %d: %s: read back a different result set", li, key)
			}
			for i := range list {
				if !verifSame(list[i], fr.MultihashResults[0].ProviderResults[i]) {
					t.Fatalf("list %d: %s: result %d differs", li, key, i)
				}
			}
		}
		srv.Close()
	}
	fmt.Printf("CASES %d\n", cases)
}

func asErr(err error, target **apierror.Error) bool {
	for err != nil {
		if ae, ok := err.(*apierror.Error); ok {
			*target = ae
			return true
		}
		u, ok := err.(interface{ Unwrap() error })
		if !ok {
			return false
		}
		err = u.Unwrap()
	}
	return false
}
