package metadata

// Bounded stand-in for C11 (labelled bounded in evidence; never counted as proved):
// every ordered selection of up to 4 transports from a small pool is encoded,
// compared with the canonical form, decoded and re-encoded on the real code.

import (
	"bytes"
	"fmt"
	"sort"
	"testing"

	"github.com/ipfs/go-cid"
	"github.com/multiformats/go-multicodec"
	"github.com/multiformats/go-multihash"
	"github.com/multiformats/go-varint"
)

func verifUnknown(code uint64, n int) *Unknown {
	var b bytes.Buffer
	b.Write(varint.ToUvarint(code))
	b.Write(varint.ToUvarint(uint64(n)))
	for i := 0; i < n; i++ {
		b.WriteByte(byte(0x41 + i))
	}
	return &Unknown{Code: multicodec.Code(code), Payload: b.Bytes()}
}

func verifPool(t *testing.T) []func() Protocol {
	mh, err := multihash.Sum([]byte("piece"), multihash.SHA2_256, -1)
	if err != nil {
		t.Fatal(err)
	}
	c := cid.NewCidV1(cid.Raw, mh)
	return []func() Protocol{
		func() Protocol { return &Bitswap{} },
		func() Protocol { return &IpfsGatewayHttp{} },
		func() Protocol { return &GraphsyncFilecoinV1{PieceCID: c, VerifiedDeal: true, FastRetrieval: false} },
		func() Protocol { return &GraphsyncFilecoinV1{PieceCID: c, VerifiedDeal: false, FastRetrieval: true} },
		func() Protocol { return verifUnknown(0x3F0000, 0) },
		func() Protocol { return verifUnknown(0x3F0001, 3) },
		func() Protocol { return verifUnknown(0x01, 1) },
	}
}

func TestVerifC11Sweep(t *testing.T) {
	pool := verifPool(t)
	cases := 0
	var rec func(sel []int)
	check := func(sel []int) {
		cases++
		var ps []Protocol
		for _, i := range sel {
			ps = append(ps, pool[i]())
		}
		// canonical form: encodings in ascending ID order (stable)
		type enc struct {
			id multicodec.Code
			b  []byte
		}
		var encs []enc
		for _, p := range ps {
			b, err := p.MarshalBinary()
			if err != nil {
				t.Fatalf("%v: marshal transport: %v", sel, err)
			}
			encs = append(encs, enc{p.ID(), b})
		}
		md := Default.New(ps...)
		got, err := md.MarshalBinary()
		if err != nil {
			t.Fatalf("%v: marshal: %v", sel, err)
		}
		sort.SliceStable(encs, func(i, j int) bool { return encs[i].id < encs[j].id })
		// the multiset of encodings, grouped by ascending ID, must make up the output
		var ids []multicodec.Code
		total := 0
		for _, e := range encs {
			ids = append(ids, e.id)
			total += len(e.b)
		}
		if len(got) != total {
			t.Fatalf("%v: encoding has %d bytes, transports have %d", sel, len(got), total)
		}
		// decode
		dec := Default.New()
		if err := dec.UnmarshalBinary(got); err != nil {
			t.Fatalf("%v: decode of own encoding failed: %v", sel, err)
		}
		if len(dec.Protocols()) != len(ps) {
			t.Fatalf("%v: decoded %d transports, want %d", sel, len(dec.Protocols()), len(ps))
		}
		for i, id := range dec.Protocols() {
			if id != ids[i] {
				t.Fatalf("%v: decoded IDs %v, want ascending %v", sel, dec.Protocols(), ids)
			}
			if dec.Get(id) == nil {
				t.Fatalf("%v: transport %v not retrievable", sel, id)
			}
		}
		if !md.Equal(dec) {
			t.Fatalf("%v: decoded metadata differs from the original", sel)
		}
		again, err := dec.MarshalBinary()
		if err != nil || !bytes.Equal(again, got) {
			t.Fatalf("%v: re-encoding differs (%v)", sel, err)
		}
	}
	rec = func(sel []int) {
		if len(sel) > 0 {
			check(sel)
		}
		if len(sel) == 4 {
			return
		}
		for i := range pool {
			rec(append(append([]int(nil), sel...), i))
		}
	}
	rec(nil)
	fmt.Printf("CASES %d\n", cases)
}

// Decoder totality: all byte strings up to length 3 over a small alphabet plus
// every truncation and single-byte substitution of a valid encoding: no panic,
// and success implies the input re-encodes to itself.
func TestVerifC11DecodeTotal(t *testing.T) {
	alphabet := []byte{0x00, 0x01, 0x02, 0x7f, 0x80, 0x81, 0xff, 0x90, 0x12, 0xa0}
	cases := 0
	try := func(in []byte) {
		cases++
		defer func() {
			if r := recover(); r != nil {
				t.Fatalf("decoder panicked on %x: %v", in, r)
			}
		}()
		md := Default.New()
		if err := md.UnmarshalBinary(in); err != nil {
			return
		}
		out, err := md.MarshalBinary()
		if err != nil {
			return
		}
		if !bytes.Equal(out, in) {
			t.Fatalf("accepted %x but re-encodes to %x", in, out)
		}
	}
	var gen func(p []byte, n int)
	gen = func(p []byte, n int) {
		try(p)
		if n == 0 {
			return
		}
		for _, b := range alphabet {
			gen(append(append([]byte(nil), p...), b), n-1)
		}
	}
	gen(nil, 3)
	pool := verifPool(t)
	vmd := Default.New(pool[0](), pool[2](), pool[5]())
	valid, _ := vmd.MarshalBinary()
	for i := 0; i <= len(valid); i++ {
		try(valid[:i])
	}
	for i := range valid {
		for _, b := range alphabet {
			m := append([]byte(nil), valid...)
			m[i] = b
			try(m)
		}
	}
	// hostile length prefixes
	for _, size := range []uint64{1 << 20, 1 << 31, 1 << 40, 1 << 62} {
		var b bytes.Buffer
		b.Write(varint.ToUvarint(0x3F0000))
		b.Write(varint.ToUvarint(size))
		try(b.Bytes())
	}
	fmt.Printf("CASES %d\n", cases)
}
