package model

// Bounded stand-in for C18 (labelled bounded; never counted as proved): real keys and libp2p
// envelopes. Requests built by the library's constructors are accepted and return the fields they
// were built from; every single-byte alteration and truncation of the sealed bytes, a request
// sealed for the other domain, and a request naming one provider but signed by another identity
// are rejected; nothing panics.

import (
	"bytes"
	"fmt"
	"os"
	"testing"

	"github.com/libp2p/go-libp2p/core/crypto"
	"github.com/libp2p/go-libp2p/core/peer"
	"github.com/multiformats/go-multihash"
)

func TestVerifC18Sweep(t *testing.T) {
	cases := 0
	newID := func() (crypto.PrivKey, peer.ID) {
		k, pub, err := crypto.GenerateEd25519Key(nil)
		if err != nil {
			t.Fatal(err)
		}
		id, err := peer.IDFromPublicKey(pub)
		if err != nil {
			t.Fatal(err)
		}
		return k, id
	}
	provKey, provID := newID()
	otherKey, otherID := newID()
	mh, _ := multihash.Sum([]byte("content"), multihash.SHA2_256, -1)
	reject := func(what string, f func() error) {
		defer func() {
			if r := recover(); r != nil {
				t.Fatalf("%s: panicked: %v", what, r)
			}
		}()
		if err := f(); err == nil {
			t.Fatalf("%s: accepted", what)
		}
		cases++
	}
	for _, ctxID := range [][]byte{nil, []byte("ctx"), bytes.Repeat([]byte{7}, 64)} {
		for _, md := range [][]byte{nil, []byte("md"), bytes.Repeat([]byte{9}, 300)} {
			for _, addrs := range [][]string{nil, {"/ip4/127.0.0.1/tcp/9999"}, {"/ip4/127.0.0.1/tcp/9999", "/dns4/example.com/tcp/443"}} {
				data, err := MakeIngestRequest(provID, provKey, mh, ctxID, md, addrs)
				if err != nil {
					t.Fatal(err)
				}
				req, err := ReadIngestRequest(data)
				if err != nil {
					t.Fatalf("an ingest request made by the library is rejected: %v", err)
				}
				if req.ProviderID != provID || !bytes.Equal(req.Multihash, mh) || !bytes.Equal(req.ContextID, ctxID) || !bytes.Equal(req.Metadata, md) || len(req.Addrs) != len(addrs) {
					t.Fatalf("ingest request fields changed: %+v", req)
				}
				for i := range addrs {
					if req.Addrs[i] != addrs[i] {
						t.Fatalf("ingest request address %d changed", i)
					}
				}
				cases++
				for k := 0; k < len(data); k++ {
					m := append([]byte(nil), data...)
					m[k] ^= 0x01
					reject(fmt.Sprintf("ingest request with byte %d altered", k), func() error { _, err := ReadIngestRequest(m); return err })
				}
				for k := 0; k < len(data); k += 5 {
					reject(fmt.Sprintf("ingest request truncated to %d bytes", k), func() error { _, err := ReadIngestRequest(data[:k]); return err })
				}
				// names the provider but is signed by somebody else
				forged, err := MakeIngestRequest(provID, otherKey, mh, ctxID, md, addrs)
				if err == nil {
					reject("ingest request naming the provider, signed by another identity", func() error { _, err := ReadIngestRequest(forged); return err })
				}
				// the other reader (other domain)
				reject("ingest request read as a register request", func() error { _, err := ReadRegisterRequest(data); return err })
			}
		}
	}
	for _, addrs := range [][]string{{"/ip4/127.0.0.1/tcp/9999"}, {"/ip4/127.0.0.1/tcp/9999", "/dns4/example.com/tcp/443"}} {
		data, err := MakeRegisterRequest(provID, provKey, addrs)
		if err != nil {
			t.Fatal(err)
		}
		rec, err := ReadRegisterRequest(data)
		if err != nil {
			t.Fatalf("a register request made by the library is rejected: %v", err)
		}
		if rec.PeerID != provID || len(rec.Addrs) != len(addrs) {
			t.Fatalf("register request fields changed")
		}
		for i := range addrs {
			if rec.Addrs[i].String() != addrs[i] {
				t.Fatalf("register request address %d changed", i)
			}
		}
		cases++
		for k := 0; k < len(data); k++ {
			m := append([]byte(nil), data...)
			m[k] ^= 0x01
			reject(fmt.Sprintf("register request with byte %d altered", k), func() error { _, err := ReadRegisterRequest(m); return err })
		}
		for k := 0; k < len(data); k += 5 {
			reject(fmt.Sprintf("register request truncated to %d bytes", k), func() error { _, err := ReadRegisterRequest(data[:k]); return err })
		}
		forged, err := MakeRegisterRequest(provID, otherKey, addrs)
		if err == nil {
			reject("register request naming the provider, signed by another identity", func() error { _, err := ReadRegisterRequest(forged); return err })
		}
		reject("register request read as an ingest request", func() error { _, err := ReadIngestRequest(data); return err })
	}
	if _, err := MakeRegisterRequest(provID, provKey, nil); err == nil {
		t.Fatalf("register request without addresses was made")
	}
	_ = otherID
	fmt.Fprintf(os.Stdout, "CASES %d\n", cases)
}
