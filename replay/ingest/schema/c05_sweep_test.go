package schema

// Bounded stand-in for C05 (labelled bounded; never counted as proved): the contracts prove the
// call protocol of signing/verification over assumed crypto and envelope behaviour; here real keys
// and envelopes are used: library-signed advertisements verify and name their signer, every single
// signed value changed makes verification fail, envelopes with altered bytes fail, and the
// who-signed rules for extended providers are enforced.

import (
	"bytes"
	"fmt"
	"os"
	"testing"

	"github.com/ipfs/go-cid"
	cidlink "github.com/ipld/go-ipld-prime/linking/cid"
	"github.com/libp2p/go-libp2p/core/crypto"
	"github.com/libp2p/go-libp2p/core/peer"
	"github.com/multiformats/go-multihash"
)

type verifC05ID struct {
	key crypto.PrivKey
	id  peer.ID
}

func verifC05NewID(t *testing.T) verifC05ID {
	k, pub, err := crypto.GenerateEd25519Key(nil)
	if err != nil {
		t.Fatal(err)
	}
	id, err := peer.IDFromPublicKey(pub)
	if err != nil {
		t.Fatal(err)
	}
	return verifC05ID{k, id}
}

func verifC05Link(s string) cidlink.Link {
	mh, _ := multihash.Sum([]byte(s), multihash.SHA2_256, -1)
	return cidlink.Link{Cid: cid.NewCidV1(cid.Raw, mh)}
}

func verifC05Clone(ad *Advertisement) *Advertisement {
	c := *ad
	c.Addresses = append([]string(nil), ad.Addresses...)
	c.Signature = append([]byte(nil), ad.Signature...)
	c.ContextID = append([]byte(nil), ad.ContextID...)
	c.Metadata = append([]byte(nil), ad.Metadata...)
	if ad.ExtendedProvider != nil {
		ep := *ad.ExtendedProvider
		ep.Providers = nil
		for _, p := range ad.ExtendedProvider.Providers {
			q := p
			q.Addresses = append([]string(nil), p.Addresses...)
			q.Metadata = append([]byte(nil), p.Metadata...)
			q.Signature = append([]byte(nil), p.Signature...)
			ep.Providers = append(ep.Providers, q)
		}
		c.ExtendedProvider = &ep
	}
	return &c
}

func TestVerifC05Sweep(t *testing.T) {
	cases := 0
	signer, ep1, ep2, stranger := verifC05NewID(t), verifC05NewID(t), verifC05NewID(t), verifC05NewID(t)
	keys := map[string]crypto.PrivKey{signer.id.String(): signer.key, ep1.id.String(): ep1.key, ep2.id.String(): ep2.key}
	fetch := func(id string) (crypto.PrivKey, error) {
		if k, ok := keys[id]; ok {
			return k, nil
		}
		return nil, fmt.Errorf("no key for %s", id)
	}
	mustFail := func(ad *Advertisement, what string) {
		defer func() {
			if r := recover(); r != nil {
				t.Fatalf("%s: VerifySignature panicked: %v", what, r)
			}
		}()
		if id, err := ad.VerifySignature(); err == nil {
			t.Fatalf("%s: verification succeeded (signer %s)", what, id)
		}
		cases++
	}
	for _, isRm := range []bool{false, true} {
		for _, withPrev := range []bool{false, true} {
			for _, nEP := range []int{0, 1, 2, 3} { // 0: none; k: main provider + (k-1) others
				for _, override := range []bool{false, true} {
					if nEP == 0 && override || nEP != 0 && isRm {
						continue // removal advertisements cannot carry extended providers
					}
					ad := &Advertisement{
						Provider:  signer.id.String(),
						Addresses: []string{"/ip4/127.0.0.1/tcp/9999", "/ip4/10.0.0.1/tcp/1"},
						Entries:   verifC05Link("entries"),
						ContextID: []byte("ctx"),
						Metadata:  []byte("metadata"),
						IsRm:      isRm,
					}
					if withPrev {
						ad.PreviousID = verifC05Link("prev")
					}
					label := fmt.Sprintf("isRm=%v prev=%v eps=%d override=%v", isRm, withPrev, nEP, override)
					var err error
					if nEP == 0 {
						err = ad.Sign(signer.key)
					} else {
						ad.ExtendedProvider = &ExtendedProvider{Override: override}
						ad.ExtendedProvider.Providers = append(ad.ExtendedProvider.Providers, Provider{ID: signer.id.String(), Addresses: []string{"/ip4/1.1.1.1/tcp/1"}, Metadata: []byte("m0")})
						for i, e := range []verifC05ID{ep1, ep2}[:nEP-1] {
							ad.ExtendedProvider.Providers = append(ad.ExtendedProvider.Providers, Provider{ID: e.id.String(), Addresses: []string{fmt.Sprintf("/ip4/2.2.2.%d/tcp/2", i), "/ip4/3.3.3.3/tcp/3"}, Metadata: []byte{byte(i), 1}})
						}
						err = ad.SignWithExtendedProviders(signer.key, fetch)
					}
					if err != nil {
						t.Fatalf("%s: signing failed: %v", label, err)
					}
					got, err := ad.VerifySignature()
					if err != nil || got != signer.id {
						t.Fatalf("%s: a library-signed advertisement does not verify as its signer: %v %v", label, got, err)
					}
					cases++
					// encode / decode round trip
					n, err := ad.ToNode()
					if err != nil {
						t.Fatal(err)
					}
					ad2, err := UnwrapAdvertisement(n)
					if err != nil {
						t.Fatal(err)
					}
					if got, err := ad2.VerifySignature(); err != nil || got != signer.id {
						t.Fatalf("%s: does not verify after a node round trip: %v", label, err)
					}
					cases++
					// every single signed value
					m := verifC05Clone(ad)
					m.PreviousID = verifC05Link("other-prev")
					mustFail(m, label+": previous link changed")
					if withPrev {
						m = verifC05Clone(ad)
						m.PreviousID = nil
						mustFail(m, label+": previous link removed")
					}
					m = verifC05Clone(ad)
					m.Entries = verifC05Link("other-entries")
					mustFail(m, label+": entries link changed")
					m = verifC05Clone(ad)
					m.Provider = ep1.id.String()
					mustFail(m, label+": provider changed")
					m = verifC05Clone(ad)
					m.Addresses[1] = "/ip4/10.0.0.2/tcp/1"
					mustFail(m, label+": one address changed")
					m = verifC05Clone(ad)
					m.Addresses = m.Addresses[:1]
					mustFail(m, label+": one address dropped")
					m = verifC05Clone(ad)
					m.Metadata = []byte("metadatb")
					mustFail(m, label+": metadata changed")
					m = verifC05Clone(ad)
					m.IsRm = !m.IsRm
					mustFail(m, label+": removal flag changed")
					for k := 0; k < len(ad.Signature); k += 7 {
						m = verifC05Clone(ad)
						m.Signature[k] ^= 0x04
						mustFail(m, fmt.Sprintf("%s: envelope byte %d altered", label, k))
					}
					m = verifC05Clone(ad)
					m.Signature = m.Signature[:len(m.Signature)-1]
					mustFail(m, label+": envelope truncated")
					if nEP > 0 {
						m = verifC05Clone(ad)
						m.ContextID = []byte("ctY")
						mustFail(m, label+": context ID changed (extended providers)")
						m = verifC05Clone(ad)
						m.ExtendedProvider.Override = !m.ExtendedProvider.Override
						mustFail(m, label+": override flag changed")
						for i := range ad.ExtendedProvider.Providers {
							m = verifC05Clone(ad)
							m.ExtendedProvider.Providers[i].Addresses[0] = "/ip4/9.9.9.9/tcp/9"
							mustFail(m, fmt.Sprintf("%s: address of extended provider %d changed", label, i))
							m = verifC05Clone(ad)
							m.ExtendedProvider.Providers[i].Metadata = []byte("zz")
							mustFail(m, fmt.Sprintf("%s: metadata of extended provider %d changed", label, i))
							m = verifC05Clone(ad)
							m.ExtendedProvider.Providers[i].ID = stranger.id.String()
							mustFail(m, fmt.Sprintf("%s: identity of extended provider %d changed", label, i))
							for k := 0; k < len(ad.ExtendedProvider.Providers[i].Signature); k += 11 {
								m = verifC05Clone(ad)
								m.ExtendedProvider.Providers[i].Signature[k] ^= 0x10
								mustFail(m, fmt.Sprintf("%s: envelope byte %d of extended provider %d altered", label, k, i))
							}
						}
						// the main provider must be among the extended providers
						if nEP > 1 {
							m = verifC05Clone(ad)
							m.ExtendedProvider.Providers = m.ExtendedProvider.Providers[1:]
							mustFail(m, label+": main provider removed from the extended providers")
							// an entry signed by somebody else than the identity it names
							m = verifC05Clone(ad)
							m.ExtendedProvider.Providers[1].Signature = append([]byte(nil), ad.ExtendedProvider.Providers[0].Signature...)
							mustFail(m, label+": extended provider entry carries another entry's envelope")
							// the same entry re-signed by a stranger's key
							forged := verifC05Clone(ad)
							keys2 := map[string]crypto.PrivKey{signer.id.String(): signer.key, ep1.id.String(): stranger.key, ep2.id.String(): ep2.key}
							if err := forged.SignWithExtendedProviders(signer.key, func(id string) (crypto.PrivKey, error) { return keys2[id], nil }); err == nil {
								mustFail(forged, label+": extended provider entry signed with a stranger's key")
							}
						}
					}
					// signed by a stranger for this provider: verifies, but names the stranger, never the provider
					s2 := verifC05Clone(ad)
					s2.ExtendedProvider = nil
					if err := s2.Sign(stranger.key); err != nil {
						t.Fatal(err)
					}
					if got, err := s2.VerifySignature(); err == nil && got != stranger.id {
						t.Fatalf("%s: verification names %s for an advertisement signed by another key", label, got)
					}
					cases++
				}
			}
		}
	}
	_ = bytes.Equal
	fmt.Fprintf(os.Stdout, "CASES %d\n", cases)
}
