package announce

// Bounded stand-in for C16 (labelled bounded; never counted as proved): all sequences of
// Close / Direct / Next / UncacheCid up to a bound on a real receiver without pubsub (with and
// without a libp2p host), compared with a reference model (closed flag, duplicate set, one-slot
// output). Calls the model expects to complete get a 5 s watchdog; calls it expects to block get a
// 15 ms context and must return that context's error - so no verdict depends on timing.

import (
	"context"
	"errors"
	"fmt"
	"os"
	"testing"
	"time"

	"github.com/ipfs/go-cid"
	"github.com/libp2p/go-libp2p"
	"github.com/libp2p/go-libp2p/core/host"
	"github.com/libp2p/go-libp2p/core/peer"
	"github.com/multiformats/go-multihash"
)

func verifC16Run(t *testing.T, depth int) {
	var cids []cid.Cid
	for _, s := range []string{"a", "b"} {
		mh, _ := multihash.Sum([]byte(s), multihash.SHA2_256, -1)
		cids = append(cids, cid.NewCidV1(cid.Raw, mh))
	}
	pid, _ := peer.Decode("12D3KooWHf7cahZvAVB36SGaVXc7fiVDoJdRJq42zDRcN2s2512h")
	h, err := libp2p.New(libp2p.NoListenAddrs)
	if err != nil {
		t.Fatal(err)
	}
	defer h.Close()
	// ops: 0,1 Direct(cid) ; 2 Next ; 3,4 UncacheCid(cid) ; 5 Close
	const nops = 6
	cases := 0
	within := func(what string, f func()) {
		done := make(chan struct{})
		go func() { f(); close(done) }()
		select {
		case <-done:
		case <-time.After(5 * time.Second):
			t.Fatalf("%s did not return", what)
		}
	}
	for _, hst := range []host.Host{nil, h} {
		var rec func(ops []int)
		rec = func(ops []int) {
			if len(ops) > 0 {
				r, err := NewReceiver(hst, "")
				if err != nil {
					t.Fatal(err)
				}
				closed := false
				seen := map[int]bool{}
				queue := -1
				for step, op := range ops {
					what := fmt.Sprintf("host=%v ops %v step %d", hst != nil, ops, step)
					switch {
					case op <= 1:
						expectBlock := !closed && !seen[op] && queue >= 0
						ctx, cancel := context.WithTimeout(context.Background(), 5*time.Second)
						if expectBlock {
							cancel()
							ctx, cancel = context.WithTimeout(context.Background(), 15*time.Millisecond)
						}
						var derr error
						within(what+" Direct", func() { derr = r.Direct(ctx, cids[op], peer.AddrInfo{ID: pid}) })
						cancel()
						switch {
						case closed:
							if !errors.Is(derr, ErrClosed) {
								t.Fatalf("%s: Direct after Close returned %v, want ErrClosed", what, derr)
							}
						case seen[op]:
							if derr != nil {
								t.Fatalf("%s: Direct of a duplicate returned %v", what, derr)
							}
						case expectBlock:
							if !errors.Is(derr, context.DeadlineExceeded) {
								t.Fatalf("%s: Direct with the consumer slot full returned %v, want the context's error", what, derr)
							}
							seen[op] = true
						default:
							if derr != nil {
								t.Fatalf("%s: Direct returned %v", what, derr)
							}
							seen[op] = true
							queue = op
						}
					case op == 2:
						expectBlock := queue < 0 && !closed
						d := 5 * time.Second
						if expectBlock {
							d = 15 * time.Millisecond
						}
						ctx, cancel := context.WithTimeout(context.Background(), d)
						var a Announce
						var nerr error
						within(what+" Next", func() { a, nerr = r.Next(ctx) })
						cancel()
						switch {
						case expectBlock:
							if !errors.Is(nerr, context.DeadlineExceeded) {
								t.Fatalf("%s: Next with nothing to deliver returned %v %v", what, a.Cid, nerr)
							}
						case queue >= 0 && closed:
							// both the queued announcement and the closed signal are ready: either is fine
							if nerr == nil {
								if a.Cid != cids[queue] {
									t.Fatalf("%s: Next delivered the wrong CID", what)
								}
								queue = -1
							} else if !errors.Is(nerr, ErrClosed) {
								t.Fatalf("%s: Next after Close returned %v", what, nerr)
							}
						case queue >= 0:
							if nerr != nil || a.Cid != cids[queue] || a.PeerID != pid {
								t.Fatalf("%s: Next returned %v %v, want the queued announcement", what, a.Cid, nerr)
							}
							queue = -1
						default:
							if !errors.Is(nerr, ErrClosed) {
								t.Fatalf("%s: Next after Close returned %v, want ErrClosed", what, nerr)
							}
						}
					case op <= 4:
						within(what+" UncacheCid", func() { r.UncacheCid(cids[op-3]) })
						if !closed {
							delete(seen, op-3)
						}
					default:
						var cerr error
						within(what+" Close", func() { cerr = r.Close() })
						if cerr != nil {
							t.Fatalf("%s: Close returned %v", what, cerr)
						}
						closed = true
					}
				}
				within("final Close", func() { r.Close() })
				cases++
			}
			if len(ops) == depth {
				return
			}
			for op := 0; op < nops; op++ {
				rec(append(ops[:len(ops):len(ops)], op))
			}
		}
		rec(nil)
	}
	fmt.Fprintf(os.Stdout, "CASES %d\n", cases)
}

func TestVerifC16Sequences(t *testing.T)     { verifC16Run(t, 3) }
func TestVerifC16SequencesDeep(t *testing.T) { verifC16Run(t, 4) }
