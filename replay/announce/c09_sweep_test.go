package announce

// Bounded stand-in for C09 (labelled bounded; never counted as proved): the contracts prove each
// stringLRU operation against an abstract recency-ranked set; the statement over HISTORIES (the
// filter holds exactly the most recently seen, not un-cached strings) is an induction over those
// per-call contracts that is not mechanised. Here all operation sequences up to a bound are run
// on the real structure at small capacities and compared with a reference model.

import (
	"context"
	"fmt"
	"math/rand"
	"os"
	"testing"
	"time"

	"github.com/ipfs/go-cid"
	"github.com/libp2p/go-libp2p/core/peer"
	"github.com/multiformats/go-multihash"
)

type verifC09Model struct {
	max   int
	order []string // most recent first
}

func (m *verifC09Model) update(s string) bool {
	for i, x := range m.order {
		if x == s {
			copy(m.order[1:i+1], m.order[:i])
			m.order[0] = s
			return true
		}
	}
	m.order = append([]string{s}, m.order...)
	if len(m.order) > m.max {
		m.order = m.order[:m.max]
	}
	return false
}

func (m *verifC09Model) remove(s string) bool {
	for i, x := range m.order {
		if x == s {
			m.order = append(m.order[:i:i], m.order[i+1:]...)
			return true
		}
	}
	return false
}

func TestVerifC09Histories(t *testing.T)     { verifC09Run(t, 0) }
func TestVerifC09HistoriesDeep(t *testing.T) { verifC09Run(t, 1) }

func verifC09Run(t *testing.T, extra int) {
	cases := 0
	for _, capacity := range []int{1, 2, 3} {
		alphabet := []string{"a", "b", "c", "d", "e"}[:capacity+2]
		nops := 2 * len(alphabet) // update(x) | remove(x)
		depth := 5 + extra
		if capacity == 1 {
			depth = 6 + extra
		}
		var rec func(ops []int)
		rec = func(ops []int) {
			if len(ops) > 0 {
				l := newStringLRU(capacity)
				m := &verifC09Model{max: capacity}
				for step, op := range ops {
					s := alphabet[op/2]
					var got, want bool
					if op%2 == 0 {
						got, want = l.update(s), m.update(s)
					} else {
						got, want = l.remove(s), m.remove(s)
					}
					if got != want {
						t.Fatalf("capacity %d, ops %v: step %d returned %v, model says %v", capacity, ops, step, got, want)
					}
					if l.len() != len(m.order) {
						t.Fatalf("capacity %d, ops %v: len %d after step %d, model says %d", capacity, ops, l.len(), step, len(m.order))
					}
				}
				// membership (probed on copies so that probing does not disturb recency): replay and ask once
				for _, probe := range alphabet {
					l2 := newStringLRU(capacity)
					m2 := &verifC09Model{max: capacity}
					for _, op := range ops {
						s := alphabet[op/2]
						if op%2 == 0 {
							l2.update(s)
							m2.update(s)
						} else {
							l2.remove(s)
							m2.remove(s)
						}
					}
					if l2.remove(probe) != m2.remove(probe) {
						t.Fatalf("capacity %d, ops %v: membership of %q differs from the model", capacity, ops, probe)
					}
				}
				cases++
			}
			if len(ops) == depth {
				return
			}
			for op := 0; op < nops; op++ {
				rec(append(ops[:len(ops):len(ops)], op))
			}
		}
		rec(nil)
	}
	fmt.Fprintf(os.Stdout, "CASES %d\n", cases)
}

// ---------------------------------------------------------------------------
// Second bounded stand-in for C09, at the receiver (labelled bounded; never counted as proved): long
// pseudo-random histories of direct announcements and un-cache operations over 80 CIDs - more than
// the 64 entries of the duplicate filter - on a real receiver, compared step by step with a
// reference model (most-recently-seen list of 64, a duplicate moves its entry to the front). An
// announcement must be delivered exactly when the model says its CID is not in the filter. The
// generator favours re-announcing recent CIDs and the oldest entries, where recency refresh and
// eviction order matter. Fixed seeds: the histories are the same on every run.

func verifC09History(t *testing.T, seeds, steps int) {
	const alphabet = 80
	var cids []cid.Cid
	for i := 0; i < alphabet; i++ {
		mh, _ := multihash.Sum([]byte(fmt.Sprintf("c09-%d", i)), multihash.SHA2_256, -1)
		cids = append(cids, cid.NewCidV1(cid.Raw, mh))
	}
	pid, _ := peer.Decode("12D3KooWHf7cahZvAVB36SGaVXc7fiVDoJdRJq42zDRcN2s2512h")
	cases := 0
	for seed := 0; seed < seeds; seed++ {
		rng := rand.New(rand.NewSource(int64(seed)))
		r, err := NewReceiver(nil, "")
		if err != nil {
			t.Fatal(err)
		}
		model := &verifC09Model{max: 64}
		index := map[string]int{}
		for i, c := range cids {
			index[c.String()] = i
		}
		pick := func() int {
			switch k := rng.Intn(10); {
			case k < 3 && len(model.order) > 0: // one of the most recent
				return index[model.order[rng.Intn(min(4, len(model.order)))]]
			case k < 6 && len(model.order) > 0: // one of the oldest
				n := len(model.order)
				return index[model.order[n-1-rng.Intn(min(4, n))]]
			default:
				return rng.Intn(alphabet)
			}
		}
		for step := 0; step < steps; step++ {
			i := pick()
			what := fmt.Sprintf("seed %d step %d cid #%d", seed, step, i)
			if rng.Intn(12) == 0 {
				r.UncacheCid(cids[i])
				model.remove(cids[i].String())
				continue
			}
			dup := model.update(cids[i].String())
			ctx, cancel := context.WithTimeout(context.Background(), 10*time.Second)
			if err := r.Direct(ctx, cids[i], peer.AddrInfo{ID: pid}); err != nil {
				t.Fatalf("%s: Direct: %v", what, err)
			}
			cancel()
			if dup {
				// nothing may be delivered: checked by a short wait only every so often (a wrongly
				// delivered duplicate also shows up as a wrong CID at the next delivery)
				if step%16 == 0 {
					ctx, cancel := context.WithTimeout(context.Background(), 5*time.Millisecond)
					if a, err := r.Next(ctx); err == nil {
						t.Fatalf("%s: a duplicate (CID among the 64 most recently seen) was delivered: %s", what, a.Cid)
					}
					cancel()
				}
				continue
			}
			ctx, cancel = context.WithTimeout(context.Background(), 10*time.Second)
			a, err := r.Next(ctx)
			cancel()
			if err != nil {
				t.Fatalf("%s: not delivered although its CID is not among the 64 most recently seen: %v", what, err)
			}
			if a.Cid != cids[i] || a.PeerID != pid {
				t.Fatalf("%s: delivered %s instead (an earlier duplicate got through?)", what, a.Cid)
			}
		}
		r.Close()
		cases++
	}
	fmt.Fprintf(os.Stdout, "CASES %d\n", cases)
}

func TestVerifC09ReceiverHistories(t *testing.T)     { verifC09History(t, 8, 1500) }
func TestVerifC09ReceiverHistoriesDeep(t *testing.T) { verifC09History(t, 64, 4000) }
