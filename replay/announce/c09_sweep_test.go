package announce

// Bounded stand-in for C09 (labelled bounded; never counted as proved): the contracts prove each
// stringLRU operation against an abstract recency-ranked set; the statement over HISTORIES (the
// filter holds exactly the most recently seen, not un-cached strings) is an induction over those
// per-call contracts that is not mechanised. Here all operation sequences up to a bound are run
// on the real structure at small capacities and compared with a reference model.

import (
	"fmt"
	"os"
	"testing"
)

type verifC09Model struct {
	max   int
	order []string // most recent first
}

func (m *verifC09Model) update(s string) bool {
	for i, x := range m.order {
		if x == s {
			copy(m.order[1:i+1], m.order[:i])
			m.order[0] = s
			return true
		}
	}
	m.order = append([]string{s}, m.order...)
	if len(m.order) > m.max {
		m.order = m.order[:m.max]
	}
	return false
}

func (m *verifC09Model) remove(s string) bool {
	for i, x := range m.order {
		if x == s {
			m.order = append(m.order[:i:i], m.order[i+1:]...)
			return true
		}
	}
	return false
}

func TestVerifC09Histories(t *testing.T)     { verifC09Run(t, 0) }
func TestVerifC09HistoriesDeep(t *testing.T) { verifC09Run(t, 1) }

func verifC09Run(t *testing.T, extra int) {
	cases := 0
	for _, capacity := range []int{1, 2, 3} {
		alphabet := []string{"a", "b", "c", "d", "e"}[:capacity+2]
		nops := 2 * len(alphabet) // update(x) | remove(x)
		depth := 5 + extra
		if capacity == 1 {
			depth = 6 + extra
		}
		var rec func(ops []int)
		rec = func(ops []int) {
			if len(ops) > 0 {
				l := newStringLRU(capacity)
				m := &verifC09Model{max: capacity}
				for step, op := range ops {
					s := alphabet[op/2]
					var got, want bool
					if op%2 == 0 {
						got, want = l.update(s), m.update(s)
					} else {
						got, want = l.remove(s), m.remove(s)
					}
					if got != want {
						t.Fatalf("capacity %d, ops %v: step %d returned %v, model says %v", capacity, ops, step, got, want)
					}
					if l.len() != len(m.order) {
						t.Fatalf("capacity %d, ops %v: len %d after step %d, model says %d", capacity, ops, l.len(), step, len(m.order))
					}
				}
				// membership (probed on copies so that probing does not disturb recency): replay and ask once
				for _, probe := range alphabet {
					l2 := newStringLRU(capacity)
					m2 := &verifC09Model{max: capacity}
					for _, op := range ops {
						s := alphabet[op/2]
						if op%2 == 0 {
							l2.update(s)
							m2.update(s)
						} else {
							l2.remove(s)
							m2.remove(s)
						}
					}
					if l2.remove(probe) != m2.remove(probe) {
						t.Fatalf("capacity %d, ops %v: membership of %q differs from the model", capacity, ops, probe)
					}
				}
				cases++
			}
			if len(ops) == depth {
				return
			}
			for op := 0; op < nops; op++ {
				rec(append(ops[:len(ops):len(ops)], op))
			}
		}
		rec(nil)
	}
	fmt.Fprintf(os.Stdout, "CASES %d\n", cases)
}
