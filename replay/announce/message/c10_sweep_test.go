package message

// Bounded stand-in for C10 (labelled bounded; never counted as proved): the contracts decide the
// structure of the hand-adapted CBOR codec over assumed cbor-gen primitives; here the real bytes
// are produced and parsed: CBOR and JSON round trips over a grid of messages, and decoder totality
// (error or a message that re-encodes to an equivalent one, never a panic, bounded allocation) on
// every truncation and every single-byte substitution of valid encodings and on hostile headers.

import (
	"bytes"
	"encoding/json"
	"fmt"
	"os"
	"reflect"
	"runtime"
	"testing"

	"github.com/ipfs/go-cid"
	"github.com/multiformats/go-multihash"
)

func verifC10Equal(a, b *Message) bool {
	norm := func(m *Message) Message {
		c := *m
		if len(c.Addrs) == 0 {
			c.Addrs = nil
		}
		for i := range c.Addrs {
			if len(c.Addrs[i]) == 0 {
				c.Addrs[i] = nil
			}
		}
		if len(c.ExtraData) == 0 {
			c.ExtraData = nil
		}
		return c
	}
	x, y := norm(a), norm(b)
	if !x.Cid.Equals(y.Cid) || x.OrigPeer != y.OrigPeer || !bytes.Equal(x.ExtraData, y.ExtraData) || len(x.Addrs) != len(y.Addrs) {
		return false
	}
	for i := range x.Addrs {
		if !bytes.Equal(x.Addrs[i], y.Addrs[i]) {
			return false
		}
	}
	return true
}

func TestVerifC10Sweep(t *testing.T) {
	var cids []cid.Cid
	for _, s := range []string{"a", "bb"} {
		mh, _ := multihash.Sum([]byte(s), multihash.SHA2_256, -1)
		cids = append(cids, cid.NewCidV1(cid.Raw, mh), cid.NewCidV0(mh))
	}
	addrSets := [][][]byte{nil, {}, {{}}, {{4, 127, 0, 0, 1, 6, 0x1f, 0x90}}, {{1}, {2, 3}, {}}, {bytes.Repeat([]byte{7}, 300)}}
	// extra data sizes around the generic cbor-gen limit (8192) as well: byte strings may be longer than that
	extras := [][]byte{nil, {}, {0}, bytes.Repeat([]byte{0xab}, 100), bytes.Repeat([]byte{1}, 8191), bytes.Repeat([]byte{2}, 8192), bytes.Repeat([]byte{3}, 8193), bytes.Repeat([]byte{4}, 70000)}
	origs := []string{"", "12D3KooWHf7cahZvAVB36SGaVXc7fiVDoJdRJq42zDRcN2s2512h", "x"}
	cases := 0
	var encodings [][]byte
	for _, c := range cids {
		for _, as := range addrSets {
			for _, ex := range extras {
				for _, o := range origs {
					m := Message{Cid: c, Addrs: as, ExtraData: ex, OrigPeer: o}
					var buf bytes.Buffer
					if err := m.MarshalCBOR(&buf); err != nil {
						t.Fatalf("MarshalCBOR: %v", err)
					}
					var d Message
					if err := d.UnmarshalCBOR(bytes.NewReader(buf.Bytes())); err != nil {
						t.Fatalf("UnmarshalCBOR of an encoded message: %v", err)
					}
					if !verifC10Equal(&m, &d) {
						t.Fatalf("CBOR round trip changed the message: %+v -> %+v", m, d)
					}
					js, err := json.Marshal(&m)
					if err != nil {
						t.Fatalf("json.Marshal: %v", err)
					}
					var dj Message
					if err := json.Unmarshal(js, &dj); err != nil {
						t.Fatalf("json.Unmarshal: %v", err)
					}
					if !verifC10Equal(&m, &dj) {
						t.Fatalf("JSON round trip changed the message: %+v -> %+v", m, dj)
					}
					if len(buf.Bytes()) < 200 {
						encodings = append(encodings, append([]byte(nil), buf.Bytes()...))
					}
					cases += 2
				}
			}
		}
	}
	// decoder totality
	try := func(b []byte) {
		defer func() {
			if r := recover(); r != nil {
				t.Fatalf("UnmarshalCBOR panicked on %x: %v", b, r)
			}
		}()
		var ms0, ms1 runtime.MemStats
		runtime.ReadMemStats(&ms0)
		var d Message
		err := d.UnmarshalCBOR(bytes.NewReader(b))
		runtime.ReadMemStats(&ms1)
		if ms1.TotalAlloc-ms0.TotalAlloc > 16<<20 {
			t.Fatalf("UnmarshalCBOR allocated %d bytes on a %d-byte input %x", ms1.TotalAlloc-ms0.TotalAlloc, len(b), b[:min(len(b), 16)])
		}
		if err == nil {
			var buf bytes.Buffer
			if err := d.MarshalCBOR(&buf); err != nil {
				return // decoded something the encoder's caps refuse: allowed ("within the encoder's size caps")
			}
			var d2 Message
			if err := d2.UnmarshalCBOR(bytes.NewReader(buf.Bytes())); err != nil || !verifC10Equal(&d, &d2) {
				t.Fatalf("decoded message does not re-encode to an equivalent one (input %x): %v", b, err)
			}
		}
		cases++
	}
	step := len(encodings) / 12
	if step == 0 {
		step = 1
	}
	for i := 0; i < len(encodings); i += step {
		e := encodings[i]
		for k := 0; k <= len(e); k++ {
			try(e[:k])
		}
		for k := 0; k < len(e); k++ {
			for _, v := range []byte{0x00, 0x1b, 0x5b, 0x7f, 0x80, 0x9b, 0xbb, 0xff} {
				m := append([]byte(nil), e...)
				m[k] = v
				try(m)
			}
		}
	}
	for _, hostile := range [][]byte{
		{0x9b, 0xff, 0xff, 0xff, 0xff, 0xff, 0xff, 0xff, 0xff},
		{0x83, 0xd8, 0x2a, 0x5b, 0x7f, 0xff, 0xff, 0xff, 0xff, 0xff, 0xff, 0xff},
		{0x84}, {0x85}, {0x82}, {0x80}, {0xa3},
	} {
		try(hostile)
	}
	_ = reflect.DeepEqual
	fmt.Fprintf(os.Stdout, "CASES %d\n", cases)
}
