package maurl

// Bounded stand-in for the URL <-> multiaddr round trip of C20 (the escaping
// agreement between net/url and go-multiaddr is dependency behaviour that no
// contract on /repo code decides). Labelled bounded in evidence.

import (
	"fmt"
	"net/url"
	"testing"
)

func TestVerifC20RoundTrip(t *testing.T) {
	hosts := []string{"1.2.3.4", "127.0.0.1", "[2001:db8::1]", "[::1]", "example.com", "a.b-c.example", "localhost"}
	ports := []string{"", ":0", ":1", ":80", ":443", ":8080", ":65535"}
	var paths []string
	paths = append(paths, "", "/", "/a", "/a/b", "/a//b", "/a/", "//", "/a b", "/a+b", "/a%20b", "/%2F", "/a%2Fb", "/~user/x.y_z-", "/ünï", "/a?b", "/a#b")
	for c := 0x20; c <= 0x7e; c++ {
		if c == '?' || c == '#' {
			continue // not part of a URL path when parsed
		}
		paths = append(paths, "/p"+string(rune(c))+"q")
	}
	cases := 0
	for _, scheme := range []string{"http", "https"} {
		for _, h := range hosts {
			for _, p := range ports {
				for _, path := range paths {
					cases++
					u := &url.URL{Scheme: scheme, Host: h + p, Path: path}
					ma, err := FromURL(u)
					if err != nil {
						t.Fatalf("FromURL(%q): %v", u.String(), err)
					}
					back, err := ToURL(ma)
					if err != nil {
						t.Fatalf("ToURL(%s) of %q: %v", ma, u.String(), err)
					}
					if back.Scheme != scheme {
						t.Fatalf("%q: scheme %q after round trip via %s", u.String(), back.Scheme, ma)
					}
					if back.Hostname() != u.Hostname() {
						t.Fatalf("%q: host %q after round trip via %s", u.String(), back.Hostname(), ma)
					}
					if back.Port() != u.Port() {
						t.Fatalf("%q: port %q after round trip via %s", u.String(), back.Port(), ma)
					}
					if back.Path != path {
						t.Fatalf("%q: path %q after round trip via %s", u.String(), back.Path, ma)
					}
				}
			}
		}
	}
	fmt.Printf("CASES %d\n", cases)
}
