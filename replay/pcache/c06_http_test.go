package pcache

// Bounded stand-in for C06 over the real HTTP source (labelled bounded; never counted as proved).
// An indexer is played by a local HTTP server whose provider table is varied: 3 providers, each
// present with one of 8 shapes (with/without advertisement time, publisher, extended providers) or
// absent. After a refresh the cache must serve, for every provider, exactly the record the server
// sent, and nothing for the absent ones; lookups that miss are answered by the single-provider
// endpoint (200 with the record, or 404) and an unknown provider must not be asked for twice.
// Provider lists that contain a JSON null (20 further histories of three refreshes) must be served as if
// the null were not there, also by the refreshes that follow.

import (
	"context"
	"encoding/json"
	"fmt"
	"net/http"
	"net/http/httptest"
	"os"
	"reflect"
	"strings"
	"sync"
	"testing"
	"time"

	"github.com/ipni/go-libipni/find/model"
	"github.com/libp2p/go-libp2p/core/peer"
)

type verifC06Indexer struct {
	nullAt int // >= 0: the provider list carries a JSON null at this position
	mu     sync.Mutex
	table  map[peer.ID]*model.ProviderInfo
	order  []peer.ID
	hits   map[string]int
}

func (x *verifC06Indexer) ServeHTTP(w http.ResponseWriter, r *http.Request) {
	x.mu.Lock()
	defer x.mu.Unlock()
	x.hits[r.URL.Path]++
	p := strings.TrimPrefix(r.URL.Path, "/providers")
	p = strings.TrimPrefix(p, "/")
	if p == "" {
		var list []*model.ProviderInfo
		for _, id := range x.order {
			if pi := x.table[id]; pi != nil {
				list = append(list, pi)
			}
		}
		if x.nullAt >= 0 {
			k := x.nullAt
			if k > len(list) {
				k = len(list)
			}
			list = append(list[:k:k], append([]*model.ProviderInfo{nil}, list[k:]...)...)
		}
		data, _ := json.Marshal(list)
		w.Header().Set("Content-Type", "application/json")
		w.Write(data)
		return
	}
	pid, err := peer.Decode(p)
	if err != nil {
		http.Error(w, "bad id", http.StatusBadRequest)
		return
	}
	pi := x.table[pid]
	if pi == nil {
		http.Error(w, "no such provider", http.StatusNotFound)
		return
	}
	data, _ := json.Marshal(pi)
	w.Header().Set("Content-Type", "application/json")
	w.Write(data)
}

func verifC06Shape(pid, other peer.ID, shape, n int) *model.ProviderInfo {
	pi := &model.ProviderInfo{AddrInfo: peer.AddrInfo{ID: pid}, Lag: n + 1}
	if shape&1 != 0 {
		pi.LastAdvertisementTime = time.Unix(int64(1700000000+n*1000), 0).UTC().Format(time.RFC3339)
	}
	if shape&2 != 0 {
		pi.Publisher = &peer.AddrInfo{ID: other}
	}
	if shape&4 != 0 {
		pi.ExtendedProviders = &model.ExtendedProviders{Providers: []peer.AddrInfo{{ID: other}}}
	}
	return pi
}

// what a client gets for a record after it went over the wire
func verifC06Wire(t *testing.T, pi *model.ProviderInfo) *model.ProviderInfo {
	data, err := json.Marshal(pi)
	if err != nil {
		t.Fatal(err)
	}
	out := new(model.ProviderInfo)
	if err := json.Unmarshal(data, out); err != nil {
		t.Fatal(err)
	}
	return out
}

func TestVerifC06HTTPSource(t *testing.T) {
	ids := make([]peer.ID, 4)
	for i, s := range []string{
		"12D3KooWKRyzVWW6ChFjQjK4miCty85Niy48tpPV95XdKu1BcvMA",
		"12D3KooWPNCkwVEwaDUbYpCAMBh6o24XVyPtSQ3W3J1u9dLCZ6Fy",
		"12D3KooWQYhTNQdmr3ArTeUHRYzFg94BKyTkoWBDWez9kSCVe2Xo",
		"12D3KooWHHzSeKaY8xuZVzkLbKFfvNgPPeKhFBGrMbNzbm5akpqu",
	} {
		id, err := peer.Decode(s)
		if err != nil {
			t.Fatal(err)
		}
		ids[i] = id
	}
	x := &verifC06Indexer{hits: map[string]int{}, nullAt: -1}
	srv := httptest.NewServer(x)
	defer srv.Close()
	ctx := context.Background()
	cases := 0
	// shape 8 = absent
	for s0 := 0; s0 <= 8; s0++ {
		for s1 := 0; s1 <= 8; s1++ {
			for s2 := 0; s2 <= 8; s2++ {
				shapes := []int{s0, s1, s2}
				x.mu.Lock()
				x.table = map[peer.ID]*model.ProviderInfo{}
				x.order = ids[:3]
				for i, s := range shapes {
					if s != 8 {
						x.table[ids[i]] = verifC06Shape(ids[i], ids[3], s, i)
					}
				}
				x.hits = map[string]int{}
				x.mu.Unlock()
				label := fmt.Sprintf("shapes %v", shapes)

				// refresh path
				pc, err := New(WithSourceURL(srv.URL), WithPreload(false), WithRefreshInterval(0))
				if err != nil {
					t.Fatal(err)
				}
				if err = pc.Refresh(ctx); err != nil {
					t.Fatalf("%s: refresh: %v", label, err)
				}
				present := 0
				for i, s := range shapes {
					got, err := pc.Get(ctx, ids[i])
					if err != nil {
						t.Fatalf("%s: get: %v", label, err)
					}
					if s == 8 {
						if got != nil {
							t.Fatalf("%s: provider %d is served although the indexer does not report it", label, i)
						}
						continue
					}
					present++
					want := verifC06Wire(t, x.table[ids[i]])
					if got == nil || !reflect.DeepEqual(got, want) {
						t.Fatalf("%s: provider %d served as %+v, the indexer reported %+v", label, i, got, want)
					}
				}
				if n := len(pc.List()); n != present {
					t.Fatalf("%s: %d providers listed, %d reported", label, n, present)
				}

				// miss path: a new cache that was never refreshed
				x.mu.Lock()
				x.hits = map[string]int{}
				x.mu.Unlock()
				pc, err = New(WithSourceURL(srv.URL), WithPreload(false), WithRefreshInterval(0))
				if err != nil {
					t.Fatal(err)
				}
				for round := 0; round < 3; round++ {
					for i, s := range shapes {
						got, err := pc.Get(ctx, ids[i])
						if err != nil {
							t.Fatalf("%s: get: %v", label, err)
						}
						if s == 8 {
							if got != nil {
								t.Fatalf("%s: lookup of unknown provider %d returned a record", label, i)
							}
							continue
						}
						want := verifC06Wire(t, x.table[ids[i]])
						if got == nil || !reflect.DeepEqual(got, want) {
							t.Fatalf("%s: lookup of provider %d returned %+v, the indexer reported %+v", label, i, got, want)
						}
					}
				}
				x.mu.Lock()
				for i := range shapes {
					if n := x.hits["/providers/"+ids[i].String()]; n != 1 {
						x.mu.Unlock()
						t.Fatalf("%s: the indexer was asked %d times for provider %d over 3 lookups (known or unknown, a miss is remembered)", label, n, i)
					}
				}
				x.mu.Unlock()
				cases++
			}
		}
	}
	// a list that contains null entries: they are skipped, everything else is served as reported - also by
	// the refreshes that follow (a first refresh sees version A of every provider, a second one version B
	// with a null at each position in turn, a third one version B without null)
	for _, tbl := range [][]int{{0, 7, 8}, {7, 7, 7}, {1, 8, 3}, {8, 8, 8}, {5, 2, 6}} {
		for nullAt := 0; nullAt <= 3; nullAt++ {
			label := fmt.Sprintf("shapes %v with null at %d", tbl, nullAt)
			set := func(version int, na int) {
				x.mu.Lock()
				x.table = map[peer.ID]*model.ProviderInfo{}
				x.order = ids[:3]
				for i, sh := range tbl {
					if sh != 8 {
						x.table[ids[i]] = verifC06Shape(ids[i], ids[3], sh|1, i+10*version)
					}
				}
				x.nullAt = na
				x.mu.Unlock()
			}
			pc, err := New(WithSourceURL(srv.URL), WithPreload(false), WithRefreshInterval(0))
			if err != nil {
				t.Fatal(err)
			}
			for step, na := range []int{-1, nullAt, -1} {
				version := 0
				if step > 0 {
					version = 1
				}
				set(version, na)
				func() {
					defer func() {
						if r := recover(); r != nil {
							t.Logf("%s: refresh %d panicked: %v", label, step, r)
						}
					}()
					if err := pc.Refresh(ctx); err != nil {
						t.Fatalf("%s: refresh %d: %v", label, step, err)
					}
				}()
				if step == 0 {
					continue
				}
				for i, sh := range tbl {
					got, err := pc.Get(ctx, ids[i])
					if err != nil {
						t.Fatalf("%s: get: %v", label, err)
					}
					if sh == 8 {
						if got != nil {
							t.Fatalf("%s: refresh %d: provider %d served although not reported", label, step, i)
						}
						continue
					}
					want := verifC06Wire(t, x.table[ids[i]])
					if got == nil || !reflect.DeepEqual(got, want) {
						t.Fatalf("%s: after refresh %d provider %d is served as %+v, the indexer reports %+v", label, step, i, got, want)
					}
				}
			}
			cases++
		}
	}
	x.mu.Lock()
	x.nullAt = -1
	x.mu.Unlock()
	fmt.Fprintf(os.Stdout, "CASES %d\n", cases)
}
