package pcache

// Bounded stand-in for C06 (labelled bounded; never counted as proved): short
// histories over two scripted sources on the real cache. After the last
// successful refresh every provider must be served with the freshest record any
// responding source reported, whatever failed or was cancelled before.

import (
	"context"
	"fmt"
	"testing"
	"time"

	"github.com/ipni/go-libipni/find/model"
	"github.com/libp2p/go-libp2p/core/peer"
)

type verifSrc struct {
	name   string
	recs   map[peer.ID]int // provider -> version (0: not reported)
	cancel context.CancelFunc
	fail   bool
}

func verifInfo(pid peer.ID, v int) *model.ProviderInfo {
	return &model.ProviderInfo{
		AddrInfo:              peer.AddrInfo{ID: pid},
		LastAdvertisementTime: time.Unix(int64(1700000000+v*100), 0).UTC().Format(time.RFC3339),
		Lag:                   v,
	}
}

func (s *verifSrc) Fetch(ctx context.Context, pid peer.ID) (*model.ProviderInfo, error) {
	if v := s.recs[pid]; v != 0 {
		return verifInfo(pid, v), nil
	}
	return nil, nil
}

func (s *verifSrc) FetchAll(ctx context.Context) ([]*model.ProviderInfo, error) {
	if s.cancel != nil {
		s.cancel()
		s.cancel = nil
		return nil, ctx.Err()
	}
	if s.fail {
		s.fail = false
		return nil, fmt.Errorf("source %s down", s.name)
	}
	var out []*model.ProviderInfo
	for pid, v := range s.recs {
		if v != 0 {
			out = append(out, verifInfo(pid, v))
		}
	}
	return out, nil
}

func (s *verifSrc) String() string { return s.name }

func TestVerifC06Histories(t *testing.T)     { verifC06Run(t, 3) }
func TestVerifC06HistoriesDeep(t *testing.T) { verifC06Run(t, 4) }

func verifC06Run(t *testing.T, depth int) {
	pids := []peer.ID{peer.ID("12D3KooWprovider-one"), peer.ID("12D3KooWprovider-two")}
	// step kinds applied before each refresh: which source advances which provider,
	// and whether the refresh is clean, loses a source, or is cancelled at a source
	type step struct {
		advSrc, advPid int
		mode           int // 0 clean, 1 source0 fails, 2 source1 fails, 3 cancelled at source0, 4 cancelled at source1
	}
	var steps []step
	for a := 0; a < 2; a++ {
		for p := 0; p < 2; p++ {
			for m := 0; m < 5; m++ {
				steps = append(steps, step{a, p, m})
			}
		}
	}
	cases := 0
	run := func(hist []step) {
		cases++
		srcs := []*verifSrc{{name: "s0", recs: map[peer.ID]int{pids[0]: 1}}, {name: "s1", recs: map[peer.ID]int{pids[0]: 1, pids[1]: 1}}}
		pc, err := New(WithPreload(false), WithRefreshInterval(0), WithSource(srcs[0], srcs[1]))
		if err != nil {
			t.Fatal(err)
		}
		if err := pc.Refresh(context.Background()); err != nil {
			t.Fatal(err)
		}
		version := 1
		for _, st := range hist {
			version++
			srcs[st.advSrc].recs[pids[st.advPid]] = version
			ctx, cancel := context.WithCancel(context.Background())
			switch st.mode {
			case 1:
				srcs[0].fail = true
			case 2:
				srcs[1].fail = true
			case 3:
				srcs[0].cancel = cancel
			case 4:
				srcs[1].cancel = cancel
			}
			_ = pc.Refresh(ctx)
			cancel()
		}
		// final clean refresh
		if err := pc.Refresh(context.Background()); err != nil {
			t.Fatalf("%v: final refresh: %v", hist, err)
		}
		for _, pid := range pids {
			want := srcs[0].recs[pid]
			if srcs[1].recs[pid] > want {
				want = srcs[1].recs[pid]
			}
			got, err := pc.Get(context.Background(), pid)
			if err != nil || got == nil {
				t.Fatalf("%v: provider %s missing after the final refresh (%v)", hist, pid, err)
			}
			if got.Lag != want {
				t.Fatalf("history %v: provider %s served with version %d, freshest reported is %d", hist, pid, got.Lag, want)
			}
		}
	}
	var rec func(h []step)
	rec = func(h []step) {
		if len(h) > 0 {
			run(h)
		}
		if len(h) == depth {
			return
		}
		for _, st := range steps {
			rec(append(h[:len(h):len(h)], st))
		}
	}
	rec(nil)
	fmt.Printf("CASES %d\n", cases)
}
