package pcache

// Bounded stand-in for C07 (labelled bounded; never counted as proved): the contracts prove the
// lockset/immutability premises per thread; here (1) readers of cached providers must return while a
// refresh, and while a miss-fetch, is held inside a source call (gates, 5 s watchdogs), and (2)
// every published snapshot taken before an operation is compared, entry by entry, with a copy made
// at that time after each of: refresh adding a provider, refresh replacing a record, refresh past
// the TTL (tombstone / removal), miss-fetch (positive and negative), cancelled refresh, failed source.

import (
	"context"
	"errors"
	"fmt"
	"os"
	"testing"
	"time"

	"github.com/ipni/go-libipni/find/model"
	"github.com/libp2p/go-libp2p/core/peer"
)

type verifC07Src struct {
	recs     map[peer.ID]int
	gateAll  chan struct{} // FetchAll waits here if non-nil
	gateOne  chan struct{} // Fetch waits here if non-nil
	entered  chan string
	failAll  bool
	cancelFn context.CancelFunc
}

func verifC07Info(pid peer.ID, v int) *model.ProviderInfo {
	return &model.ProviderInfo{AddrInfo: peer.AddrInfo{ID: pid}, LastAdvertisementTime: time.Unix(int64(1700000000+v*100), 0).UTC().Format(time.RFC3339), Lag: v}
}

func (s *verifC07Src) Fetch(ctx context.Context, pid peer.ID) (*model.ProviderInfo, error) {
	if s.gateOne != nil {
		s.entered <- "fetch"
		<-s.gateOne
	}
	if v := s.recs[pid]; v != 0 {
		return verifC07Info(pid, v), nil
	}
	return nil, nil
}

func (s *verifC07Src) FetchAll(ctx context.Context) ([]*model.ProviderInfo, error) {
	if s.gateAll != nil {
		s.entered <- "fetchall"
		<-s.gateAll
	}
	if s.cancelFn != nil {
		s.cancelFn()
		s.cancelFn = nil
		return nil, ctx.Err()
	}
	if s.failAll {
		s.failAll = false
		return nil, errors.New("source down")
	}
	var out []*model.ProviderInfo
	for pid, v := range s.recs {
		if v != 0 {
			out = append(out, verifC07Info(pid, v))
		}
	}
	return out, nil
}

func (s *verifC07Src) String() string { return "verifC07" }

type verifC07Snap struct {
	ro   readOnly
	m, u map[peer.ID]*readProviderInfo
	prov map[*readProviderInfo]model.ProviderInfo
}

func verifC07Take(pc *ProviderCache) *verifC07Snap {
	ro := pc.loadReadOnly()
	s := &verifC07Snap{ro: ro, m: map[peer.ID]*readProviderInfo{}, u: map[peer.ID]*readProviderInfo{}, prov: map[*readProviderInfo]model.ProviderInfo{}}
	for k, v := range ro.m {
		s.m[k] = v
		if v != nil && v.provider != nil {
			s.prov[v] = *v.provider
		}
	}
	for k, v := range ro.u {
		s.u[k] = v
		if v != nil && v.provider != nil {
			s.prov[v] = *v.provider
		}
	}
	return s
}

func (s *verifC07Snap) check(t *testing.T, what string) {
	cmp := func(name string, now, then map[peer.ID]*readProviderInfo) {
		if len(now) != len(then) {
			t.Fatalf("%s: a published %s map changed size from %d to %d after it was published", what, name, len(then), len(now))
		}
		for k, v := range then {
			if nv, ok := now[k]; !ok || nv != v {
				t.Fatalf("%s: entry %s of a published %s map changed after it was published", what, k, name)
			}
		}
	}
	cmp("main", s.ro.m, s.m)
	cmp("update", s.ro.u, s.u)
	for rpi, p := range s.prov {
		if rpi.provider == nil || rpi.provider.LastAdvertisementTime != p.LastAdvertisementTime || rpi.provider.Lag != p.Lag || rpi.provider.AddrInfo.ID != p.AddrInfo.ID {
			t.Fatalf("%s: a published record was modified in place", what)
		}
	}
}

func TestVerifC07Scenarios(t *testing.T) {
	cases := 0
	ctx := context.Background()
	var pids []peer.ID
	for _, s := range []string{"12D3KooWNSRG5wTShNu6EXCPTkoH7dWsphKAPrbvQchHa5arfsDC", "12D3KooWHf7cahZvAVB36SGaVXc7fiVDoJdRJq42zDRcN2s2512h", "12D3KooWPNbkEgjdBNeaCGpsgCrPRETe4uBZf1ShFXStobdN18ys", "12D3KooWQYzCrTPdJ8sJ9V3JrPt7YPWzzUFbVeBdK6SHrCdQJDS2"} {
		p, err := peer.Decode(s)
		if err != nil {
			t.Fatal(err)
		}
		pids = append(pids, p)
	}
	within := func(what string, f func()) {
		done := make(chan struct{})
		go func() { f(); close(done) }()
		select {
		case <-done:
		case <-time.After(5 * time.Second):
			t.Fatalf("%s did not return while a writer was in progress", what)
		}
	}

	// (1) readers do not wait for a refresh or a miss-fetch in progress
	{
		src := &verifC07Src{recs: map[peer.ID]int{pids[0]: 1, pids[1]: 1}, entered: make(chan string, 4)}
		pc, err := New(WithSource(src), WithPreload(false), WithRefreshInterval(0), WithTTL(time.Hour))
		if err != nil {
			t.Fatal(err)
		}
		if err := pc.Refresh(ctx); err != nil {
			t.Fatal(err)
		}
		readers := func(stage string) {
			within(stage+": Get", func() {
				if p, err := pc.Get(ctx, pids[0]); err != nil || p == nil {
					t.Errorf("%s: Get of a cached provider: %v %v", stage, p, err)
				}
			})
			within(stage+": List", func() {
				if l := pc.List(); len(l) < 2 {
					t.Errorf("%s: List returned %d providers", stage, len(l))
				}
			})
			within(stage+": Len", func() { pc.Len() })
			within(stage+": GetResults", func() {
				if r, err := pc.GetResults(ctx, pids[1], []byte("c"), []byte("m")); err != nil || len(r) != 1 {
					t.Errorf("%s: GetResults of a cached provider: %v %v", stage, r, err)
				}
			})
		}
		src.gateAll = make(chan struct{})
		done := make(chan error, 1)
		go func() { done <- pc.Refresh(ctx) }()
		<-src.entered
		readers("refresh in progress")
		close(src.gateAll)
		src.gateAll = nil
		if err := <-done; err != nil {
			t.Fatal(err)
		}
		src.gateOne = make(chan struct{})
		src.recs[pids[2]] = 1
		go func() { _, err := pc.Get(ctx, pids[2]); done <- err }()
		<-src.entered
		readers("miss-fetch in progress")
		close(src.gateOne)
		src.gateOne = nil
		if err := <-done; err != nil {
			t.Fatal(err)
		}
		cases += 2
	}

	// (1b) no return path keeps the write lock: after a refresh with an already-cancelled context, a
	// cancelled miss-fetch and a failing source, the next refresh and the next miss-fetch complete
	{
		src := &verifC07Src{recs: map[peer.ID]int{pids[0]: 1}, entered: make(chan string, 4)}
		pc, err := New(WithSource(src), WithPreload(false), WithRefreshInterval(0), WithTTL(time.Hour))
		if err != nil {
			t.Fatal(err)
		}
		dead, cancel := context.WithCancel(ctx)
		cancel()
		within("Refresh with a cancelled context", func() { pc.Refresh(dead) })
		within("Get (miss) with a cancelled context", func() { pc.Get(dead, pids[1]) })
		src.failAll = true
		within("Refresh with a failing source", func() { pc.Refresh(ctx) })
		c2, cancel2 := context.WithCancel(ctx)
		src.cancelFn = cancel2
		within("Refresh cancelled at the source", func() { pc.Refresh(c2) })
		within("Refresh after the failed ones", func() {
			c, cancel := context.WithTimeout(ctx, 4*time.Second)
			defer cancel()
			if err := pc.Refresh(c); err != nil {
				t.Errorf("refresh after failed refreshes: %v (write lock still held?)", err)
			}
		})
		within("miss-fetch after the failed ones", func() {
			c, cancel := context.WithTimeout(ctx, 4*time.Second)
			defer cancel()
			src.recs[pids[2]] = 1
			if p, err := pc.Get(c, pids[2]); err != nil || p == nil {
				t.Errorf("miss-fetch after failed refreshes: %v %v (write lock still held?)", p, err)
			}
		})
		cases++
	}

	// (2) published snapshots are never modified
	{
		src := &verifC07Src{recs: map[peer.ID]int{pids[0]: 1}, entered: make(chan string, 4)}
		pc, err := New(WithSource(src), WithPreload(false), WithRefreshInterval(0), WithTTL(30*time.Millisecond))
		if err != nil {
			t.Fatal(err)
		}
		var snaps []*verifC07Snap
		step := func(what string, f func()) {
			snaps = append(snaps, verifC07Take(pc))
			f()
			for _, s := range snaps {
				s.check(t, what)
			}
			cases++
		}
		step("first refresh", func() { pc.Refresh(ctx) })
		step("refresh adding a provider", func() { src.recs[pids[1]] = 1; pc.Refresh(ctx) })
		step("refresh replacing a record", func() { src.recs[pids[0]] = 2; pc.Refresh(ctx) })
		step("miss-fetch of a known provider", func() { src.recs[pids[2]] = 1; pc.Get(ctx, pids[2]) })
		step("miss-fetch of an unknown provider", func() { pc.Get(ctx, pids[3]) })
		step("refresh with nothing new", func() { pc.Refresh(ctx) })
		step("provider disappears", func() { src.recs[pids[1]] = 0; pc.Refresh(ctx) })
		step("refresh past the TTL", func() { time.Sleep(40 * time.Millisecond); pc.Refresh(ctx) })
		step("cancelled refresh", func() {
			c, cancel := context.WithCancel(ctx)
			src.cancelFn = cancel
			src.recs[pids[0]] = 3
			pc.Refresh(c)
		})
		step("failed source", func() { src.failAll = true; pc.Refresh(ctx) })
		step("refresh after the failures", func() { pc.Refresh(ctx) })
		for i := 0; i < 12; i++ {
			step(fmt.Sprintf("churn %d", i), func() {
				src.recs[pids[i%3]] = i + 4
				if i%4 == 3 {
					src.recs[pids[(i+1)%3]] = 0
				}
				pc.Refresh(ctx)
				pc.Get(ctx, pids[(i+2)%4])
			})
		}
	}
	fmt.Fprintf(os.Stdout, "CASES %d\n", cases)
}
