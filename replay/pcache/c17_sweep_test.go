package pcache

// Bounded stand-in for C17 (labelled bounded; never counted as proved): GetResults on the real
// cache for a grid of provider records, compared with a reference written from the property text
// (provider first; context-level extended providers of that context; chain-level ones unless
// overridden; the provider's own entry skipped when its metadata is absent, empty or equal to the
// looked-up one; looked-up metadata substituted for absent/empty), including metadata lists
// shorter and longer than the provider lists and duplicate context IDs (the last one wins, as in
// apiToCacheInfo). No call may panic.

import (
	"bytes"
	"context"
	"fmt"
	"os"
	"testing"

	"github.com/ipni/go-libipni/find/model"
	"github.com/libp2p/go-libp2p/core/peer"
)

type verifC17Src struct{ info *model.ProviderInfo }

func (s *verifC17Src) Fetch(ctx context.Context, pid peer.ID) (*model.ProviderInfo, error) {
	if s.info != nil && s.info.AddrInfo.ID == pid {
		return s.info, nil
	}
	return nil, nil
}
func (s *verifC17Src) FetchAll(ctx context.Context) ([]*model.ProviderInfo, error) {
	if s.info == nil {
		return nil, nil
	}
	return []*model.ProviderInfo{s.info}, nil
}
func (s *verifC17Src) String() string { return "verifC17" }

type verifC17Res struct {
	id peer.ID
	md []byte
}

func verifC17Expand(out []verifC17Res, pid peer.ID, lookupMD []byte, provs []peer.AddrInfo, mds [][]byte) []verifC17Res {
	for i, p := range provs {
		var md []byte
		if i < len(mds) {
			md = mds[i]
		}
		if p.ID == pid && (len(md) == 0 || bytes.Equal(md, lookupMD)) {
			continue
		}
		if len(md) == 0 {
			md = lookupMD
		}
		out = append(out, verifC17Res{p.ID, md})
	}
	return out
}

func TestVerifC17Sweep(t *testing.T) {
	ids := []string{"12D3KooWNSRG5wTShNu6EXCPTkoH7dWsphKAPrbvQchHa5arfsDC", "12D3KooWHf7cahZvAVB36SGaVXc7fiVDoJdRJq42zDRcN2s2512h", "12D3KooWPNbkEgjdBNeaCGpsgCrPRETe4uBZf1ShFXStobdN18ys"}
	var pids []peer.ID
	for _, s := range ids {
		p, err := peer.Decode(s)
		if err != nil {
			t.Fatal(err)
		}
		pids = append(pids, p)
	}
	main := pids[0]
	lookupMD := []byte("lookup")
	mdChoices := [][]byte{nil, {}, []byte("lookup"), []byte("own")}
	// provider lists: up to 2 entries drawn from {main, ep1, ep2}
	var provLists [][]peer.AddrInfo
	provLists = append(provLists, nil)
	for _, a := range pids {
		provLists = append(provLists, []peer.AddrInfo{{ID: a}})
		for _, b := range pids {
			provLists = append(provLists, []peer.AddrInfo{{ID: a}, {ID: b}})
		}
	}
	// metadata lists of length 0..3 over mdChoices (lengths differ from the provider lists on purpose)
	var mdLists [][][]byte
	mdLists = append(mdLists, nil)
	for _, a := range mdChoices {
		mdLists = append(mdLists, [][]byte{a})
		for _, b := range mdChoices {
			mdLists = append(mdLists, [][]byte{a, b})
		}
	}
	mdLists = append(mdLists, [][]byte{[]byte("own"), nil, []byte("third")})
	cases := 0
	check := func(info *model.ProviderInfo, ctxID string, want []verifC17Res, label string) {
		defer func() {
			if r := recover(); r != nil {
				t.Fatalf("%s: GetResults panicked: %v", label, r)
			}
		}()
		pc, err := New(WithSource(&verifC17Src{info: info}), WithPreload(false), WithRefreshInterval(0))
		if err != nil {
			t.Fatal(err)
		}
		got, err := pc.GetResults(context.Background(), main, []byte(ctxID), lookupMD)
		if err != nil {
			t.Fatalf("%s: %v", label, err)
		}
		if len(got) != len(want) {
			t.Fatalf("%s: %d results, reference says %d", label, len(got), len(want))
		}
		for i := range want {
			if got[i].Provider == nil || got[i].Provider.ID != want[i].id || !bytes.Equal(got[i].Metadata, want[i].md) || string(got[i].ContextID) != ctxID {
				t.Fatalf("%s: result %d is %v/%q, reference says %v/%q", label, i, got[i].Provider, got[i].Metadata, want[i].id, want[i].md)
			}
		}
		cases++
	}
	// no extended providers at all
	check(&model.ProviderInfo{AddrInfo: peer.AddrInfo{ID: main}}, "ctx", []verifC17Res{{main, lookupMD}}, "no extended providers")
	// chain-level only
	for pi, provs := range provLists {
		for mi, mds := range mdLists {
			info := &model.ProviderInfo{AddrInfo: peer.AddrInfo{ID: main}, ExtendedProviders: &model.ExtendedProviders{Providers: provs, Metadatas: mds}}
			want := verifC17Expand([]verifC17Res{{main, lookupMD}}, main, lookupMD, provs, mds)
			check(info, "ctx", want, fmt.Sprintf("chain-level providers #%d metadatas #%d", pi, mi))
		}
	}
	// contextual (for the looked-up context, another context, both; override on/off; duplicate context IDs) over a fixed chain level
	for _, chainLevel := range []bool{true, false} {
		chainProvs := []peer.AddrInfo{{ID: pids[1]}, {ID: main}}
		chainMDs := [][]byte{[]byte("chain"), nil}
		if !chainLevel {
			chainProvs, chainMDs = nil, nil // context-level extended providers only
		}
		for pi, provs := range provLists {
			for mi := 0; mi < len(mdLists); mi += 3 {
				mds := mdLists[mi]
				for _, override := range []bool{false, true} {
					for shape := 0; shape < 4; shape++ {
						var ctxs []model.ContextualExtendedProviders
						mine := model.ContextualExtendedProviders{Override: override, ContextID: "ctx", Providers: provs, Metadatas: mds}
						other := model.ContextualExtendedProviders{Override: !override, ContextID: "other", Providers: []peer.AddrInfo{{ID: pids[2]}}, Metadatas: [][]byte{[]byte("o")}}
						effective := &mine
						switch shape {
						case 0:
							ctxs = []model.ContextualExtendedProviders{mine}
						case 1:
							ctxs = []model.ContextualExtendedProviders{other, mine}
						case 2:
							ctxs = []model.ContextualExtendedProviders{other}
							effective = nil
						case 3:
							// the same context ID twice: the later entry is the one in force
							earlier := model.ContextualExtendedProviders{Override: !override, ContextID: "ctx", Providers: []peer.AddrInfo{{ID: pids[2]}}, Metadatas: [][]byte{[]byte("earlier")}}
							ctxs = []model.ContextualExtendedProviders{earlier, mine}
						}
						info := &model.ProviderInfo{AddrInfo: peer.AddrInfo{ID: main}, ExtendedProviders: &model.ExtendedProviders{Providers: chainProvs, Metadatas: chainMDs, Contextual: ctxs}}
						want := []verifC17Res{{main, lookupMD}}
						ov := false
						if effective != nil {
							want = verifC17Expand(want, main, lookupMD, effective.Providers, effective.Metadatas)
							ov = effective.Override
						}
						if !ov {
							want = verifC17Expand(want, main, lookupMD, chainProvs, chainMDs)
						}
						check(info, "ctx", want, fmt.Sprintf("contextual providers #%d metadatas #%d override=%v shape=%d", pi, mi, override, shape))
					}
				}
			}
		}
	}
	// unknown provider: no results, no error
	pc, _ := New(WithSource(&verifC17Src{}), WithPreload(false), WithRefreshInterval(0))
	if got, err := pc.GetResults(context.Background(), main, []byte("ctx"), lookupMD); err != nil || len(got) != 0 {
		t.Fatalf("unknown provider: %v %v", got, err)
	}
	cases++
	fmt.Fprintf(os.Stdout, "CASES %d\n", cases)
}
