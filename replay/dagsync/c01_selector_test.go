package dagsync

// Bounded stand-in for C01 (labelled bounded; never counted as proved): the selector helpers of
// selector.go work on ipld-prime nodes (a dependency whose data model is not under contract; the
// contracts use these helpers through their arguments only). Here they are exercised on the real
// library: for every recursion limit in a range, with and without a stop link and with two
// different sequences, the selector built carries exactly that limit and stop link; rewriting the
// limit changes the limit and nothing else (stop link and sequence are kept), for every pair of
// limits; selectors that are not of the expected shape are refused.

import (
	"fmt"
	"os"
	"testing"

	"github.com/ipfs/go-cid"
	"github.com/ipld/go-ipld-prime"
	"github.com/ipld/go-ipld-prime/datamodel"
	cidlink "github.com/ipld/go-ipld-prime/linking/cid"
	basicnode "github.com/ipld/go-ipld-prime/node/basic"
	"github.com/ipld/go-ipld-prime/traversal/selector"
	selectorbuilder "github.com/ipld/go-ipld-prime/traversal/selector/builder"
	"github.com/multiformats/go-multihash"
)

func verifC01Limits() []selector.RecursionLimit {
	ls := []selector.RecursionLimit{selector.RecursionLimitNone()}
	for _, d := range []int64{1, 2, 3, 5, 8, 100, 1 << 40} {
		ls = append(ls, selector.RecursionLimitDepth(d))
	}
	return ls
}

func verifC01SameLimit(a, b selector.RecursionLimit) bool {
	if a.Mode() != b.Mode() {
		return false
	}
	return a.Mode() != selector.RecursionLimit_Depth || a.Depth() == b.Depth()
}

func TestVerifC01Selectors(t *testing.T) {
	var stops []ipld.Link
	stops = append(stops, nil)
	for _, s := range []string{"x", "y"} {
		mh, _ := multihash.Sum([]byte(s), multihash.SHA2_256, -1)
		stops = append(stops, cidlink.Link{Cid: cid.NewCidV1(cid.Raw, mh)})
	}
	ssb := selectorbuilder.NewSelectorSpecBuilder(basicnode.Prototype.Any)
	seqs := []ipld.Node{
		nil,
		ssb.ExploreAll(ssb.ExploreRecursiveEdge()).Node(),
		ssb.ExploreFields(func(efsb selectorbuilder.ExploreFieldsSpecBuilder) {
			efsb.Insert("PreviousID", ssb.ExploreRecursiveEdge())
		}).Node(),
	}
	seqOf := func(sel datamodel.Node) datamodel.Node {
		n, err := sel.LookupByString(selector.SelectorKey_ExploreRecursive)
		if err != nil {
			t.Fatalf("selector has no recursion entry: %v", err)
		}
		n, err = n.LookupByString(selector.SelectorKey_Sequence)
		if err != nil {
			t.Fatalf("selector has no sequence: %v", err)
		}
		return n
	}
	cases := 0
	for _, lim := range verifC01Limits() {
		for _, stop := range stops {
			for _, seq := range seqs {
				what := fmt.Sprintf("limit %v/%d stop %v seq %v", lim.Mode(), lim.Depth(), stop, seq != nil)
				sel := ExploreRecursiveWithStopNode(lim, seq, stop)
				if _, err := selector.CompileSelector(sel); err != nil {
					t.Fatalf("%s: the selector built does not compile: %v", what, err)
				}
				got, ok := getRecursionLimit(sel)
				if !ok || !verifC01SameLimit(got, lim) {
					t.Fatalf("%s: the selector built carries limit %v/%d (ok=%v)", what, got.Mode(), got.Depth(), ok)
				}
				gs, ok := getStopNode(sel)
				if (stop == nil) != !ok || (stop != nil && gs.String() != stop.String()) {
					t.Fatalf("%s: the selector built carries stop link %v (ok=%v)", what, gs, ok)
				}
				if seq != nil && !datamodel.DeepEqual(seqOf(sel), seq) {
					t.Fatalf("%s: the selector built does not carry the sequence given", what)
				}
				cases++
				for _, rl := range verifC01Limits() {
					re, ok := withRecursionLimit(sel, rl)
					if !ok {
						t.Fatalf("%s: limit not rewritten to %v/%d", what, rl.Mode(), rl.Depth())
					}
					if _, err := selector.CompileSelector(re); err != nil {
						t.Fatalf("%s: the rewritten selector does not compile: %v", what, err)
					}
					got, ok := getRecursionLimit(re)
					if !ok || !verifC01SameLimit(got, rl) {
						t.Fatalf("%s: rewritten to %v/%d but carries %v/%d (ok=%v)", what, rl.Mode(), rl.Depth(), got.Mode(), got.Depth(), ok)
					}
					gs, ok := getStopNode(re)
					if (stop == nil) != !ok || (stop != nil && gs.String() != stop.String()) {
						t.Fatalf("%s: rewriting the limit changed the stop link to %v (ok=%v)", what, gs, ok)
					}
					if !datamodel.DeepEqual(seqOf(re), seqOf(sel)) {
						t.Fatalf("%s: rewriting the limit changed the sequence", what)
					}
					// the original is not modified
					if l0, _ := getRecursionLimit(sel); !verifC01SameLimit(l0, lim) {
						t.Fatalf("%s: rewriting the limit modified the original selector", what)
					}
					cases++
				}
			}
		}
	}
	// shapes that are refused
	for i, bad := range []datamodel.Node{nil, basicnode.NewString("x"), ssb.ExploreAll(ssb.Matcher()).Node(), ssb.Matcher().Node()} {
		if _, ok := getRecursionLimit(bad); ok {
			t.Fatalf("bad selector %d: a recursion limit was found", i)
		}
		if bad != nil && bad.Kind() != datamodel.Kind_Map {
			continue
		}
		if _, ok := withRecursionLimit(bad, selector.RecursionLimitDepth(1)); ok {
			t.Fatalf("bad selector %d: its limit was rewritten", i)
		}
		cases++
	}
	fmt.Fprintf(os.Stdout, "CASES %d\n", cases)
}
