package dagsync_test

// Bounded stand-in for C14 (labelled bounded; never counted as proved). The contracts decide the
// distributor's per-iteration rules and the senders per thread; the statement over schedules
// (registration racing delivery, slow readers) is not decided. Here a fixed set of sequential
// scenarios runs on the real subscriber: 1..4 listeners; each listener cancelled in turn; a listener
// that does not read for 5 syncs; cancellation with notifications still queued; Close with
// notifications queued; one failed announce-triggered sync; segmented syncs of 7 and 2 blocks with
// segment sizes 1, 2, 3, 10 (the count covers all segments). Only presence, content, order and
// channel closure are asserted; every wait has a generous watchdog, absence is checked after the
// next event was seen (no timing-based false alarms).

import (
	"context"
	"fmt"
	"os"
	"testing"
	"time"

	"github.com/ipfs/go-cid"
	"github.com/ipfs/go-datastore"
	dssync "github.com/ipfs/go-datastore/sync"
	"github.com/ipld/go-ipld-prime"
	"github.com/ipld/go-ipld-prime/fluent"
	cidlink "github.com/ipld/go-ipld-prime/linking/cid"
	basicnode "github.com/ipld/go-ipld-prime/node/basic"
	"github.com/ipni/go-libipni/dagsync"
	"github.com/ipni/go-libipni/dagsync/ipnisync"
	"github.com/ipni/go-libipni/dagsync/test"
	"github.com/ipni/go-libipni/ingest/schema"
	"github.com/libp2p/go-libp2p/core/host"
	"github.com/libp2p/go-libp2p/core/peer"
)

const verifC14Wait = 20 * time.Second

type verifC14Pub struct {
	pub      *ipnisync.Publisher
	lsys     ipld.LinkSystem
	peerInfo peer.AddrInfo
	head     ipld.Link
	n        int
}

func verifC14NewPub(t *testing.T) *verifC14Pub {
	srcHost, srcPrivKey := test.MkTestHostPK(t)
	lsys := test.MkLinkSystem(dssync.MutexWrap(datastore.NewMapDatastore()))
	pub, err := ipnisync.NewPublisher(lsys, srcPrivKey, ipnisync.WithStreamHost(srcHost))
	if err != nil {
		t.Fatal(err)
	}
	t.Cleanup(func() { pub.Close() })
	return &verifC14Pub{pub: pub, lsys: lsys, peerInfo: peer.AddrInfo{ID: srcHost.ID(), Addrs: srcHost.Addrs()}}
}

// extend adds k blocks on top of the chain and publishes the new head.
func (p *verifC14Pub) extend(t *testing.T, k int) cid.Cid {
	for i := 0; i < k; i++ {
		p.n++
		n := fluent.MustBuildMap(basicnode.Prototype.Map, 3, func(na fluent.MapAssembler) {
			na.AssembleEntry("Pub").AssignString(p.peerInfo.ID.String())
			na.AssembleEntry("Seq").AssignInt(int64(p.n))
			if p.head != nil {
				na.AssembleEntry("PreviousID").AssignLink(p.head)
			}
		})
		lnk, err := p.lsys.Store(ipld.LinkContext{}, schema.Linkproto, n)
		if err != nil {
			t.Fatal(err)
		}
		p.head = lnk
	}
	c := p.head.(cidlink.Link).Cid
	p.pub.SetRoot(c)
	return c
}

func verifC14Sync(t *testing.T, sub *dagsync.Subscriber, pi peer.AddrInfo) {
	done := make(chan error, 1)
	go func() {
		ctx, cancel := context.WithTimeout(context.Background(), verifC14Wait)
		defer cancel()
		_, err := sub.SyncAdChain(ctx, pi)
		done <- err
	}()
	select {
	case err := <-done:
		if err != nil {
			t.Fatalf("sync failed: %v", err)
		}
	case <-time.After(verifC14Wait + 5*time.Second):
		t.Fatal("SyncAdChain did not return (a listener delays syncs?)")
	}
}

func verifC14Expect(t *testing.T, what string, ch <-chan dagsync.SyncFinished, c cid.Cid, pid peer.ID, count int) {
	select {
	case ev, open := <-ch:
		if !open {
			t.Fatalf("%s: channel closed, expected the notification for %s", what, c)
		}
		if ev.Cid != c || ev.PeerID != pid || ev.Count != count || ev.Err != nil {
			t.Fatalf("%s: got {%s %s %d %v}, want {%s %s %d}", what, ev.Cid, ev.PeerID, ev.Count, ev.Err, c, pid, count)
		}
	case <-time.After(verifC14Wait):
		t.Fatalf("%s: no notification for %s", what, c)
	}
}

func verifC14ExpectClosed(t *testing.T, what string, ch <-chan dagsync.SyncFinished) {
	select {
	case ev, open := <-ch:
		if open {
			t.Fatalf("%s: got an extra notification {%s %d} instead of a closed channel", what, ev.Cid, ev.Count)
		}
	case <-time.After(verifC14Wait):
		t.Fatalf("%s: channel was not closed", what)
	}
}

func verifC14NewSub(t *testing.T, h host.Host, opts ...dagsync.Option) *dagsync.Subscriber {
	lsys := test.MkLinkSystem(dssync.MutexWrap(datastore.NewMapDatastore()))
	sub, err := dagsync.NewSubscriber(h, lsys, opts...)
	if err != nil {
		t.Fatal(err)
	}
	return sub
}

func TestVerifC14Scenarios(t *testing.T) {
	cases := 0
	dstHost := test.MkTestHost(t)
	// 1..4 listeners, each one cancelled in turn
	for k := 1; k <= 4; k++ {
		for victim := 0; victim < k; victim++ {
			p := verifC14NewPub(t)
			sub := verifC14NewSub(t, dstHost)
			var chs []<-chan dagsync.SyncFinished
			var cancels []context.CancelFunc
			for i := 0; i < k; i++ {
				ch, cancel := sub.OnSyncFinished()
				chs = append(chs, ch)
				cancels = append(cancels, cancel)
			}
			c1 := p.extend(t, 2)
			verifC14Sync(t, sub, p.peerInfo)
			for i := range chs {
				verifC14Expect(t, fmt.Sprintf("%d listeners, sync 1, listener %d", k, i), chs[i], c1, p.peerInfo.ID, 2)
			}
			cancels[victim]()
			cancels[victim]() // idempotent
			verifC14ExpectClosed(t, fmt.Sprintf("%d listeners, cancelled listener %d", k, victim), chs[victim])
			c2 := p.extend(t, 3)
			verifC14Sync(t, sub, p.peerInfo)
			c3 := p.extend(t, 1)
			verifC14Sync(t, sub, p.peerInfo)
			for i := range chs {
				if i == victim {
					continue
				}
				// exactly once, in order: the second sync's event, then directly the third's
				verifC14Expect(t, fmt.Sprintf("%d listeners, listener %d cancelled, sync 2, listener %d", k, victim, i), chs[i], c2, p.peerInfo.ID, 3)
				verifC14Expect(t, fmt.Sprintf("%d listeners, listener %d cancelled, sync 3, listener %d", k, victim, i), chs[i], c3, p.peerInfo.ID, 1)
			}
			if err := sub.Close(); err != nil {
				t.Fatal(err)
			}
			for i := range chs {
				if i != victim {
					verifC14ExpectClosed(t, fmt.Sprintf("%d listeners, after Close, listener %d", k, i), chs[i])
				}
			}
			for _, c := range cancels {
				c() // after Close: must not block
			}
			cases++
		}
	}
	// a listener that does not read for 5 syncs delays nobody and loses nothing
	{
		p := verifC14NewPub(t)
		sub := verifC14NewSub(t, dstHost)
		slow, cancelSlow := sub.OnSyncFinished()
		fast, cancelFast := sub.OnSyncFinished()
		var heads []cid.Cid
		for i := 0; i < 5; i++ {
			heads = append(heads, p.extend(t, i+1))
			verifC14Sync(t, sub, p.peerInfo)
			verifC14Expect(t, fmt.Sprintf("slow-listener scenario, fast listener, sync %d", i), fast, heads[i], p.peerInfo.ID, i+1)
		}
		for i := 0; i < 5; i++ {
			verifC14Expect(t, fmt.Sprintf("slow-listener scenario, slow listener, sync %d", i), slow, heads[i], p.peerInfo.ID, i+1)
		}
		// cancellation with notifications still queued: they are delivered, then the channel closes
		h6 := p.extend(t, 1)
		verifC14Sync(t, sub, p.peerInfo)
		h7 := p.extend(t, 2)
		verifC14Sync(t, sub, p.peerInfo)
		verifC14Expect(t, "queued scenario, fast listener, sync 6", fast, h6, p.peerInfo.ID, 1)
		verifC14Expect(t, "queued scenario, fast listener, sync 7", fast, h7, p.peerInfo.ID, 2)
		cancelSlow()
		verifC14Expect(t, "queued scenario, cancelled listener, queued event 1", slow, h6, p.peerInfo.ID, 1)
		verifC14Expect(t, "queued scenario, cancelled listener, queued event 2", slow, h7, p.peerInfo.ID, 2)
		verifC14ExpectClosed(t, "queued scenario, cancelled listener", slow)
		// Close with a notification queued
		h8 := p.extend(t, 1)
		verifC14Sync(t, sub, p.peerInfo)
		if err := sub.Close(); err != nil {
			t.Fatal(err)
		}
		verifC14Expect(t, "close scenario, queued event", fast, h8, p.peerInfo.ID, 1)
		verifC14ExpectClosed(t, "close scenario", fast)
		cancelFast()
		cases += 3
	}
	// a failed announce-triggered sync: exactly one notification, carrying the error, the announced CID and the publisher
	{
		p := verifC14NewPub(t)
		sub := verifC14NewSub(t, dstHost, dagsync.RecvAnnounce(""))
		ch, cancel := sub.OnSyncFinished()
		good := p.extend(t, 2)
		missing, _ := cid.Decode("bafkreiabltrd5zm73pvi7plq25pef3hm7jxhbi3kv4hapegrkfpkqtkbme")
		if err := sub.Announce(context.Background(), missing, p.peerInfo); err != nil {
			t.Fatalf("Announce: %v", err)
		}
		select {
		case ev, open := <-ch:
			if !open || ev.Err == nil || ev.Cid != missing || ev.PeerID != p.peerInfo.ID {
				t.Fatalf("failed announce-triggered sync: got {%s %s %d %v open=%v}", ev.Cid, ev.PeerID, ev.Count, ev.Err, open)
			}
		case <-time.After(verifC14Wait):
			t.Fatal("failed announce-triggered sync: no notification")
		}
		if lnk := sub.GetLatestSync(p.peerInfo.ID); lnk != nil {
			t.Fatalf("failed announce-triggered sync changed the latest-synced value to %s", lnk)
		}
		// the next event is the one of the following good sync: nothing else was queued for the failure
		if err := sub.Announce(context.Background(), good, p.peerInfo); err != nil {
			t.Fatalf("Announce: %v", err)
		}
		verifC14Expect(t, "announce-triggered sync after a failed one", ch, good, p.peerInfo.ID, 2)
		cancel()
		verifC14ExpectClosed(t, "announce scenario, cancelled listener", ch)
		if err := sub.Close(); err != nil {
			t.Fatal(err)
		}
		cases++
	}
	// segmented syncs: the count of the notification covers all segments of the sync (7 new blocks in
	// segments of 1, 2, 3 and 10 blocks, then 2 more)
	for _, seg := range []int64{1, 2, 3, 10} {
		p := verifC14NewPub(t)
		dstLsys := test.MkLinkSystem(dssync.MutexWrap(datastore.NewMapDatastore()))
		hook := func(_ peer.ID, c cid.Cid, actions dagsync.SegmentSyncActions) {
			n, err := dstLsys.Load(ipld.LinkContext{}, cidlink.Link{Cid: c}, basicnode.Prototype.Any)
			if err != nil {
				actions.FailSync(err)
				return
			}
			prev, err := n.LookupByString("PreviousID")
			if err != nil {
				actions.SetNextSyncCid(cid.Undef)
				return
			}
			lnk, err := prev.AsLink()
			if err != nil {
				actions.FailSync(err)
				return
			}
			actions.SetNextSyncCid(lnk.(cidlink.Link).Cid)
		}
		sub, err := dagsync.NewSubscriber(dstHost, dstLsys, dagsync.BlockHook(hook), dagsync.SegmentDepthLimit(seg))
		if err != nil {
			t.Fatal(err)
		}
		ch, cancel := sub.OnSyncFinished()
		h1 := p.extend(t, 7)
		verifC14Sync(t, sub, p.peerInfo)
		verifC14Expect(t, fmt.Sprintf("segmented sync (segment %d), 7 blocks", seg), ch, h1, p.peerInfo.ID, 7)
		h2 := p.extend(t, 2)
		verifC14Sync(t, sub, p.peerInfo)
		verifC14Expect(t, fmt.Sprintf("segmented sync (segment %d), 2 more blocks", seg), ch, h2, p.peerInfo.ID, 2)
		cancel()
		verifC14ExpectClosed(t, "segmented scenario, cancelled listener", ch)
		if err := sub.Close(); err != nil {
			t.Fatal(err)
		}
		cases += 2
	}
	fmt.Fprintf(os.Stdout, "CASES %d\n", cases)
}
