package dagsync_test

// Bounded stand-in for C01 (labelled bounded; never counted as proved). The contracts
// decide what /repo's own code does around the traversal (depth/stop/segment decisions,
// what reaches the hook); WHICH blocks the ipld-prime traversal visits is dependency
// behaviour and is sampled here on the real subscriber, publisher and HTTP transport:
// a linear chain, every stop point, a set of depth limits and segment sizes. For each
// combination the hook must receive exactly chain[0 : min(stop, limit)] in order, once
// each, the head must be returned, and the stop block and anything older must not have
// been fetched into the store.

import (
	"context"
	"fmt"
	"os"
	"sync"
	"testing"
	"time"

	"github.com/ipfs/go-cid"
	"github.com/ipfs/go-datastore"
	dssync "github.com/ipfs/go-datastore/sync"
	"github.com/ipld/go-ipld-prime"
	"github.com/ipld/go-ipld-prime/fluent"
	cidlink "github.com/ipld/go-ipld-prime/linking/cid"
	basicnode "github.com/ipld/go-ipld-prime/node/basic"
	"github.com/ipni/go-libipni/dagsync"
	"github.com/ipni/go-libipni/dagsync/ipnisync"
	"github.com/ipni/go-libipni/dagsync/test"
	"github.com/ipni/go-libipni/ingest/schema"
	"github.com/libp2p/go-libp2p/core/host"
	"github.com/libp2p/go-libp2p/core/peer"
)

type verifC01Pub struct {
	peerInfo peer.AddrInfo
	chain    []cid.Cid // chain[0] is the head
}

func verifC01NewPub(t *testing.T, length int, field string) *verifC01Pub {
	t.Helper()
	srcStore := dssync.MutexWrap(datastore.NewMapDatastore())
	srcHost, srcPrivKey := test.MkTestHostPK(t)
	srcLsys := test.MkLinkSystem(srcStore)
	pub, err := ipnisync.NewPublisher(srcLsys, srcPrivKey, ipnisync.WithStreamHost(srcHost))
	if err != nil {
		t.Fatal(err)
	}
	t.Cleanup(func() { pub.Close() })
	chain := make([]cid.Cid, length)
	var prev ipld.Link
	for i := length - 1; i >= 0; i-- {
		n := fluent.MustBuildMap(basicnode.Prototype.Map, 2, func(na fluent.MapAssembler) {
			na.AssembleEntry("Seq").AssignInt(int64(length - i))
			if prev != nil {
				na.AssembleEntry(field).AssignLink(prev)
			}
		})
		lnk, err := srcLsys.Store(ipld.LinkContext{}, schema.Linkproto, n)
		if err != nil {
			t.Fatal(err)
		}
		chain[i] = lnk.(cidlink.Link).Cid
		prev = lnk
	}
	pub.SetRoot(chain[0])
	return &verifC01Pub{peerInfo: peer.AddrInfo{ID: srcHost.ID(), Addrs: srcHost.Addrs()}, chain: chain}
}

type verifC01Sub struct {
	sub   *dagsync.Subscriber
	store datastore.Batching
	mu    sync.Mutex
	seen  []cid.Cid
}

var verifC01Host host.Host

func verifC01NewSub(t *testing.T, opts ...dagsync.Option) *verifC01Sub {
	t.Helper()
	zs := &verifC01Sub{store: dssync.MutexWrap(datastore.NewMapDatastore())}
	if verifC01Host == nil {
		verifC01Host = test.MkTestHost(t)
	}
	dstHost := verifC01Host
	dstLsys := test.MkLinkSystem(zs.store)
	hook := func(_ peer.ID, c cid.Cid, actions dagsync.SegmentSyncActions) {
		zs.mu.Lock()
		zs.seen = append(zs.seen, c)
		zs.mu.Unlock()
		n, err := dstLsys.Load(ipld.LinkContext{}, cidlink.Link{Cid: c}, basicnode.Prototype.Any)
		if err != nil {
			actions.FailSync(err)
			return
		}
		prevNode, err := n.LookupByString("PreviousID")
		if err != nil {
			prevNode, err = n.LookupByString("Next")
		}
		if err != nil {
			actions.SetNextSyncCid(cid.Undef) // oldest block
			return
		}
		prevLnk, err := prevNode.AsLink()
		if err != nil {
			actions.FailSync(err)
			return
		}
		actions.SetNextSyncCid(prevLnk.(cidlink.Link).Cid)
	}
	opts = append([]dagsync.Option{dagsync.BlockHook(hook)}, opts...)
	sub, err := dagsync.NewSubscriber(dstHost, dstLsys, opts...)
	if err != nil {
		t.Fatal(err)
	}
	zs.sub = sub
	return zs
}

func (zs *verifC01Sub) close() { zs.sub.Close() }

func (zs *verifC01Sub) has(c cid.Cid) bool {
	ok, _ := zs.store.Has(context.Background(), datastore.NewKey(c.String()))
	return ok
}

func verifC01Check(zs *verifC01Sub, chain []cid.Cid, want int, label string) error {
	zs.mu.Lock()
	seen := append([]cid.Cid(nil), zs.seen...)
	zs.mu.Unlock()
	if len(seen) != want {
		return fmt.Errorf("%s: hook got %d blocks, want %d", label, len(seen), want)
	}
	for i := range seen {
		if seen[i] != chain[i] {
			return fmt.Errorf("%s: hook call %d got block #%d of the chain out of order", label, i, i)
		}
	}
	for i := want; i < len(chain); i++ {
		if zs.has(chain[i]) {
			return fmt.Errorf("%s: block #%d (at or beyond the stop point / depth limit %d) was fetched", label, i, want)
		}
	}
	for i := 0; i < want; i++ {
		if !zs.has(chain[i]) {
			return fmt.Errorf("%s: block #%d was reported but is not stored", label, i)
		}
	}
	return nil
}

func verifC01Run(t *testing.T, full bool, deep bool) {
	verifC01Host = nil
	chainLen := 9
	if deep {
		chainLen = 14
	}
	ads := verifC01NewPub(t, chainLen, "PreviousID")
	ents := verifC01NewPub(t, chainLen, "Next")
	stops := []int{0, 1, 3, 4, 8} // 0: no stop; s: stop at chain[s]
	limits := []int64{0, 1, 3, 5}
	segs := []int64{-1, 1, 2, 3}
	if full {
		stops = []int{0, 1, 2, 3, 4, 5, 6, 7, 8}
		limits = []int64{0, 1, 2, 3, 4, 5, 8, 9, 12}
		segs = []int64{-1, 1, 2, 3, 4, 9}
	}
	if deep {
		stops, limits = nil, nil
		for i := 0; i < chainLen; i++ {
			stops = append(stops, i)
		}
		for i := 0; i <= chainLen+2; i++ {
			limits = append(limits, int64(i))
		}
		segs = []int64{-1, 1, 2, 3, 4, 5, 7, 14}
	}
	cases := 0
	heads := []int{0}
	resyncs := []bool{false}
	if full {
		heads = []int{0, 2}
		resyncs = []bool{false, true}
	}
	for _, headIdx := range heads {
		for _, resync := range resyncs {
			for _, stop := range stops {
				if stop != 0 && stop <= headIdx {
					continue
				}
				for _, limit := range limits {
					for _, seg := range segs {
						chain := ads.chain[headIdx:]
						want := len(chain)
						if stop != 0 && stop-headIdx < want {
							want = stop - headIdx
						}
						if limit != 0 && int(limit) < want {
							want = int(limit)
						}
						label := fmt.Sprintf("ads head=%d resync=%v stop=%d limit=%d segment=%d", headIdx, resync, stop, limit, seg)
						zs := verifC01NewSub(t)
						var opts []dagsync.SyncOption
						if headIdx != 0 {
							opts = append(opts, dagsync.WithHeadAdCid(ads.chain[headIdx]))
						}
						if resync {
							opts = append(opts, dagsync.WithAdsResync(true))
						}
						if stop != 0 {
							opts = append(opts, dagsync.WithStopAdCid(ads.chain[stop]))
						}
						if limit != 0 {
							opts = append(opts, dagsync.ScopedDepthLimit(limit))
						}
						opts = append(opts, dagsync.ScopedSegmentDepthLimit(seg))
						ctx, cancel := context.WithTimeout(context.Background(), 20*time.Second)
						head, err := zs.sub.SyncAdChain(ctx, ads.peerInfo, opts...)
						cancel()
						if err != nil {
							t.Fatalf("%s: %v", label, err)
						}
						if head != chain[0] {
							t.Fatalf("%s: returned head is not the requested head", label)
						}
						if err := verifC01Check(zs, chain, want, label); err != nil {
							t.Fatal(err)
						}
						zs.close()
						cases++
					}
				}
			}
		}
	}
	// subscriber-wide limits and the first-sync depth, then a second sync that stops at the latest synced ad
	for _, seg := range segs {
		for _, first := range []int64{0, 2} {
			label := fmt.Sprintf("ads-wide limit=4 first=%d segment=%d", first, seg)
			zs := verifC01NewSub(t, dagsync.AdsDepthLimit(4), dagsync.FirstSyncDepth(first), dagsync.SegmentDepthLimit(seg))
			ctx, cancel := context.WithTimeout(context.Background(), 20*time.Second)
			_, err := zs.sub.SyncAdChain(ctx, ads.peerInfo)
			cancel()
			if err != nil {
				t.Fatalf("%s: %v", label, err)
			}
			want := 4
			if first != 0 {
				want = int(first)
			}
			if err := verifC01Check(zs, ads.chain, want, label); err != nil {
				t.Fatal(err)
			}
			// nothing new: the second sync stops at the head it already has
			ctx, cancel = context.WithTimeout(context.Background(), 20*time.Second)
			_, err = zs.sub.SyncAdChain(ctx, ads.peerInfo)
			cancel()
			if err != nil {
				t.Fatalf("%s (second sync): %v", label, err)
			}
			if err := verifC01Check(zs, ads.chain, want, label+" (second sync)"); err != nil {
				t.Fatal(err)
			}
			zs.close()
			cases++
		}
	}
	// entries chains
	for _, limit := range limits {
		for _, seg := range segs {
			want := chainLen
			if limit != 0 && int(limit) < want {
				want = int(limit)
			}
			label := fmt.Sprintf("entries limit=%d segment=%d", limit, seg)
			zs := verifC01NewSub(t)
			opts := []dagsync.SyncOption{dagsync.ScopedSegmentDepthLimit(seg)}
			if limit != 0 {
				opts = append(opts, dagsync.ScopedDepthLimit(limit))
			}
			ctx, cancel := context.WithTimeout(context.Background(), 20*time.Second)
			err := zs.sub.SyncEntries(ctx, ents.peerInfo, ents.chain[0], opts...)
			cancel()
			if err != nil {
				t.Fatalf("%s: %v", label, err)
			}
			if err := verifC01Check(zs, ents.chain, want, label); err != nil {
				t.Fatal(err)
			}
			zs.close()
			cases++
		}
	}
	fmt.Fprintf(os.Stdout, "CASES %d\n", cases)
}

func TestVerifC01Quick(t *testing.T) { verifC01Run(t, false, false) }
func TestVerifC01Full(t *testing.T)  { verifC01Run(t, true, false) }
func TestVerifC01Deep(t *testing.T)  { verifC01Run(t, true, true) }
