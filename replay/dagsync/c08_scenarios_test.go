package dagsync_test

// Bounded stand-in for C08 (labelled bounded; never counted as proved). The contracts decide the
// per-thread premises (sync mutex around every Syncer.Sync with the hook installed, semaphore and
// wait-group balance, spawn iff the pending slot was empty, slot only ever emptied by the sync);
// the statement over schedules is not decided. Here four scenarios run on the real subscriber with a
// block hook that can hold a sync: (A) a burst of announcements while a sync of the same publisher
// is held - the newest one is acted on afterwards, syncs never overlap; (B) an explicit sync racing
// an announce-triggered one of the same publisher - hook calls do not interleave; (C) more
// publishers than MaxAsyncConcurrency - no second announce-triggered sync runs while the first is
// held; (D) a failed announce-triggered sync does not wedge the publisher. Waits have generous
// watchdogs; "must not happen yet" is checked by waiting a short time (a miss there can only hide a
// violation, never raise a false alarm).

import (
	"context"
	"fmt"
	"os"
	"sync"
	"testing"
	"time"

	"github.com/ipfs/go-cid"
	"github.com/ipfs/go-datastore"
	dssync "github.com/ipfs/go-datastore/sync"
	"github.com/ipld/go-ipld-prime"
	"github.com/ipld/go-ipld-prime/fluent"
	cidlink "github.com/ipld/go-ipld-prime/linking/cid"
	basicnode "github.com/ipld/go-ipld-prime/node/basic"
	"github.com/ipni/go-libipni/dagsync"
	"github.com/ipni/go-libipni/dagsync/ipnisync"
	"github.com/ipni/go-libipni/dagsync/test"
	"github.com/ipni/go-libipni/ingest/schema"
	"github.com/libp2p/go-libp2p/core/host"
	"github.com/libp2p/go-libp2p/core/peer"
)

const verifC08Wait = 20 * time.Second

type verifC08Pub struct {
	pub      *ipnisync.Publisher
	lsys     ipld.LinkSystem
	peerInfo peer.AddrInfo
	head     ipld.Link
	chain    []cid.Cid // oldest first
}

func verifC08NewPub(t *testing.T) *verifC08Pub {
	srcHost, srcPrivKey := test.MkTestHostPK(t)
	lsys := test.MkLinkSystem(dssync.MutexWrap(datastore.NewMapDatastore()))
	pub, err := ipnisync.NewPublisher(lsys, srcPrivKey, ipnisync.WithStreamHost(srcHost))
	if err != nil {
		t.Fatal(err)
	}
	t.Cleanup(func() { pub.Close() })
	return &verifC08Pub{pub: pub, lsys: lsys, peerInfo: peer.AddrInfo{ID: srcHost.ID(), Addrs: srcHost.Addrs()}}
}

func (p *verifC08Pub) extend(t *testing.T) cid.Cid {
	n := fluent.MustBuildMap(basicnode.Prototype.Map, 3, func(na fluent.MapAssembler) {
		na.AssembleEntry("Pub").AssignString(p.peerInfo.ID.String()) // chains of different publishers must not share CIDs
		na.AssembleEntry("Seq").AssignInt(int64(len(p.chain) + 1))
		if p.head != nil {
			na.AssembleEntry("PreviousID").AssignLink(p.head)
		}
	})
	lnk, err := p.lsys.Store(ipld.LinkContext{}, schema.Linkproto, n)
	if err != nil {
		t.Fatal(err)
	}
	c := lnk.(cidlink.Link).Cid
	verifC08PrevMu.Lock()
	if p.head != nil {
		verifC08Prev[c] = p.head.(cidlink.Link).Cid
	}
	verifC08PrevMu.Unlock()
	p.head = lnk
	p.chain = append(p.chain, c)
	p.pub.SetRoot(c)
	return c
}

// the block before each block, so that the hook can drive segmented syncs
var (
	verifC08PrevMu sync.Mutex
	verifC08Prev   = map[cid.Cid]cid.Cid{}
)

type verifC08Call struct {
	pid peer.ID
	c   cid.Cid
	tag string
}

// verifC08Hooks records hook calls and can hold the first call of a sync until released.
type verifC08Hooks struct {
	mu      sync.Mutex
	calls   []verifC08Call
	holdFor map[peer.ID]chan struct{} // the next hook call for this publisher waits here (once)
	entered chan verifC08Call
	active  map[peer.ID]int
	overlap bool
}

func newVerifC08Hooks() *verifC08Hooks {
	return &verifC08Hooks{holdFor: map[peer.ID]chan struct{}{}, entered: make(chan verifC08Call, 64), active: map[peer.ID]int{}}
}

func (h *verifC08Hooks) hold(pid peer.ID) chan struct{} {
	g := make(chan struct{})
	h.mu.Lock()
	h.holdFor[pid] = g
	h.mu.Unlock()
	return g
}

func (h *verifC08Hooks) hook(tag string) dagsync.BlockHookFunc {
	return func(pid peer.ID, c cid.Cid, actions dagsync.SegmentSyncActions) {
		verifC08PrevMu.Lock()
		prev, ok := verifC08Prev[c]
		verifC08PrevMu.Unlock()
		if ok {
			actions.SetNextSyncCid(prev)
		} else {
			actions.SetNextSyncCid(cid.Undef)
		}
		h.mu.Lock()
		h.calls = append(h.calls, verifC08Call{pid, c, tag})
		h.active[pid]++
		if h.active[pid] > 1 {
			h.overlap = true
		}
		g := h.holdFor[pid]
		delete(h.holdFor, pid)
		h.mu.Unlock()
		if g != nil {
			h.entered <- verifC08Call{pid, c, tag}
			<-g
		}
		h.mu.Lock()
		h.active[pid]--
		h.mu.Unlock()
	}
}

func (h *verifC08Hooks) snapshot() []verifC08Call {
	h.mu.Lock()
	defer h.mu.Unlock()
	return append([]verifC08Call(nil), h.calls...)
}

func verifC08WaitLatest(t *testing.T, sub *dagsync.Subscriber, pid peer.ID, want cid.Cid, what string) {
	deadline := time.Now().Add(verifC08Wait)
	for {
		if lnk := sub.GetLatestSync(pid); lnk != nil && lnk.(cidlink.Link).Cid == want {
			return
		}
		if time.Now().After(deadline) {
			t.Fatalf("%s: the latest announcement (%s) was never synced (latest is %v)", what, want, sub.GetLatestSync(pid))
		}
		time.Sleep(5 * time.Millisecond)
	}
}

func verifC08Entered(t *testing.T, h *verifC08Hooks, what string) verifC08Call {
	select {
	case c := <-h.entered:
		return c
	case <-time.After(verifC08Wait):
		t.Fatalf("%s: the sync never reached its block hook", what)
	}
	return verifC08Call{}
}

func verifC08NotEntered(t *testing.T, h *verifC08Hooks, d time.Duration, what string) {
	select {
	case c := <-h.entered:
		t.Fatalf("%s: a hook call (%s, %s sync) happened while another sync was held", what, c.c, c.tag)
	case <-time.After(d):
	}
}

func verifC08NewSub(t *testing.T, hst host.Host, h *verifC08Hooks, opts ...dagsync.Option) *dagsync.Subscriber {
	lsys := test.MkLinkSystem(dssync.MutexWrap(datastore.NewMapDatastore()))
	opts = append([]dagsync.Option{dagsync.RecvAnnounce(""), dagsync.BlockHook(h.hook("announce")), dagsync.StrictAdsSelector(false)}, opts...)
	sub, err := dagsync.NewSubscriber(hst, lsys, opts...)
	if err != nil {
		t.Fatal(err)
	}
	return sub
}

func TestVerifC08Scenarios(t *testing.T) {
	cases := 0
	ctx := context.Background()
	dstHost := test.MkTestHost(t)

	// (A) burst of announcements while a sync of the same publisher is held
	for burst := 1; burst <= 4; burst++ {
		p := verifC08NewPub(t)
		h := newVerifC08Hooks()
		sub := verifC08NewSub(t, dstHost, h)
		h1 := p.extend(t)
		gate := h.hold(p.peerInfo.ID)
		if err := sub.Announce(ctx, h1, p.peerInfo); err != nil {
			t.Fatal(err)
		}
		verifC08Entered(t, h, fmt.Sprintf("burst %d: first announcement", burst))
		var last cid.Cid
		for i := 0; i < burst; i++ {
			last = p.extend(t)
			if err := sub.Announce(ctx, last, p.peerInfo); err != nil {
				t.Fatal(err)
			}
		}
		verifC08NotEntered(t, h, 150*time.Millisecond, fmt.Sprintf("burst %d", burst))
		close(gate)
		verifC08WaitLatest(t, sub, p.peerInfo.ID, last, fmt.Sprintf("burst %d", burst))
		if err := sub.Close(); err != nil {
			t.Fatal(err)
		}
		calls := h.snapshot()
		if h.overlap {
			t.Fatalf("burst %d: hook calls of two syncs of one publisher overlapped", burst)
		}
		// every block of the chain reported exactly once; the first sync's block first; within the rest newest to oldest per sync
		seen := map[cid.Cid]int{}
		for _, c := range calls {
			seen[c.c]++
		}
		for i, c := range p.chain {
			if seen[c] != 1 {
				t.Fatalf("burst %d: block #%d of the chain was reported %d times", burst, i, seen[c])
			}
		}
		if calls[0].c != h1 {
			t.Fatalf("burst %d: the held sync's block was not the first reported", burst)
		}
		cases++
	}

	// (B) explicit sync racing an announce-triggered sync of the same publisher, unsegmented and in segments of one block
	for _, seg := range []int64{-1, 1} {
		p := verifC08NewPub(t)
		h := newVerifC08Hooks()
		sub := verifC08NewSub(t, dstHost, h, dagsync.SegmentDepthLimit(seg))
		p.extend(t)
		p.extend(t)
		h2 := p.extend(t)
		gate := h.hold(p.peerInfo.ID)
		if err := sub.Announce(ctx, h2, p.peerInfo); err != nil {
			t.Fatal(err)
		}
		verifC08Entered(t, h, "race: announce-triggered sync")
		h5 := p.extend(t)
		done := make(chan error, 1)
		go func() {
			c, cancel := context.WithTimeout(ctx, verifC08Wait)
			defer cancel()
			_, err := sub.SyncAdChain(c, p.peerInfo, dagsync.ScopedBlockHook(h.hook("explicit")))
			done <- err
		}()
		// the explicit sync must not report anything while the announce-triggered one is held
		time.Sleep(200 * time.Millisecond)
		for _, c := range h.snapshot() {
			if c.tag == "explicit" {
				t.Fatalf("race: the explicit sync reported block %s while the announce-triggered sync of the same publisher was still running", c.c)
			}
		}
		close(gate)
		select {
		case err := <-done:
			if err != nil {
				t.Fatalf("race: explicit sync: %v", err)
			}
		case <-time.After(verifC08Wait + 5*time.Second):
			t.Fatal("race: explicit sync did not return")
		}
		verifC08WaitLatest(t, sub, p.peerInfo.ID, h5, "race")
		if err := sub.Close(); err != nil {
			t.Fatal(err)
		}
		if h.overlap {
			t.Fatal("race: hook calls of two syncs of one publisher overlapped")
		}
		calls := h.snapshot()
		// no interleaving: once an explicit call was seen, no announce call of the first sync follows
		sawExplicit := false
		for _, c := range calls {
			if c.tag == "explicit" {
				sawExplicit = true
			} else if sawExplicit && (c.c == p.chain[0] || c.c == p.chain[1] || c.c == p.chain[2]) {
				t.Fatal("race: hook calls of the two syncs interleave")
			}
		}
		cases++
	}

	// (E) an announcement for a head that an explicit sync already fetched must not wedge the publisher
	{
		p := verifC08NewPub(t)
		h := newVerifC08Hooks()
		sub := verifC08NewSub(t, dstHost, h)
		h1 := p.extend(t)
		c, cancel := context.WithTimeout(ctx, verifC08Wait)
		if _, err := sub.SyncAdChain(c, p.peerInfo); err != nil {
			t.Fatalf("already-synced: explicit sync: %v", err)
		}
		cancel()
		if err := sub.Announce(ctx, h1, p.peerInfo); err != nil {
			t.Fatal(err)
		}
		time.Sleep(200 * time.Millisecond) // let the redundant announcement be dealt with first
		for i := 0; i < 3; i++ {
			hn := p.extend(t)
			if err := sub.Announce(ctx, hn, p.peerInfo); err != nil {
				t.Fatal(err)
			}
			verifC08WaitLatest(t, sub, p.peerInfo.ID, hn, fmt.Sprintf("already-synced: announcement %d after the redundant one", i+1))
		}
		if err := sub.Close(); err != nil {
			t.Fatal(err)
		}
		cases++
	}

	// (F) a sync that runs longer than the idle-handler TTL: the cleaner must leave the handler alone, so that a
	// further announcement of the same publisher still waits for the running sync
	{
		p := verifC08NewPub(t)
		h := newVerifC08Hooks()
		sub := verifC08NewSub(t, dstHost, h, dagsync.IdleHandlerTTL(100*time.Millisecond))
		h1 := p.extend(t)
		gate := h.hold(p.peerInfo.ID)
		if err := sub.Announce(ctx, h1, p.peerInfo); err != nil {
			t.Fatal(err)
		}
		verifC08Entered(t, h, "idle: first sync")
		time.Sleep(450 * time.Millisecond) // several cleaner rounds
		h2 := p.extend(t)
		if err := sub.Announce(ctx, h2, p.peerInfo); err != nil {
			t.Fatal(err)
		}
		time.Sleep(300 * time.Millisecond)
		for _, c := range h.snapshot() {
			if c.c == h2 {
				t.Fatal("idle: a second sync of the publisher reported a block while its first sync (longer than the idle-handler TTL) was still running")
			}
		}
		close(gate)
		verifC08WaitLatest(t, sub, p.peerInfo.ID, h2, "idle")
		if err := sub.Close(); err != nil {
			t.Fatal(err)
		}
		if h.overlap {
			t.Fatal("idle: hook calls of two syncs of one publisher overlapped")
		}
		cases++
	}

	// (C) more publishers than the concurrency limit
	{
		pa, pb := verifC08NewPub(t), verifC08NewPub(t)
		h := newVerifC08Hooks()
		sub := verifC08NewSub(t, dstHost, h, dagsync.MaxAsyncConcurrency(1))
		ha, hb := pa.extend(t), pb.extend(t)
		gateA := h.hold(pa.peerInfo.ID)
		gateB := h.hold(pb.peerInfo.ID)
		if err := sub.Announce(ctx, ha, pa.peerInfo); err != nil {
			t.Fatal(err)
		}
		if c := verifC08Entered(t, h, "limit: publisher A"); c.pid != pa.peerInfo.ID {
			t.Fatal("limit: unexpected first sync")
		}
		if err := sub.Announce(ctx, hb, pb.peerInfo); err != nil {
			t.Fatal(err)
		}
		verifC08NotEntered(t, h, 300*time.Millisecond, "limit (MaxAsyncConcurrency 1)")
		close(gateA)
		if c := verifC08Entered(t, h, "limit: publisher B after A finished"); c.pid != pb.peerInfo.ID {
			t.Fatal("limit: unexpected second sync")
		}
		close(gateB)
		verifC08WaitLatest(t, sub, pa.peerInfo.ID, ha, "limit A")
		verifC08WaitLatest(t, sub, pb.peerInfo.ID, hb, "limit B")
		if err := sub.Close(); err != nil {
			t.Fatal(err)
		}
		cases++
	}

	// (D) a failed announce-triggered sync does not wedge the publisher
	{
		p := verifC08NewPub(t)
		h := newVerifC08Hooks()
		sub := verifC08NewSub(t, dstHost, h)
		events, cancel := sub.OnSyncFinished()
		missing, _ := cid.Decode("bafkreiabltrd5zm73pvi7plq25pef3hm7jxhbi3kv4hapegrkfpkqtkbme")
		if err := sub.Announce(ctx, missing, p.peerInfo); err != nil {
			t.Fatal(err)
		}
		select {
		case ev := <-events:
			if ev.Err == nil {
				t.Fatal("failure: the sync of a missing head succeeded")
			}
		case <-time.After(verifC08Wait):
			t.Fatal("failure: no notification for the failed sync")
		}
		for i := 0; i < 3; i++ {
			c := p.extend(t)
			if err := sub.Announce(ctx, c, p.peerInfo); err != nil {
				t.Fatal(err)
			}
			verifC08WaitLatest(t, sub, p.peerInfo.ID, c, fmt.Sprintf("failure: announcement %d after the failed sync", i+1))
		}
		cancel()
		if err := sub.Close(); err != nil {
			t.Fatal(err)
		}
		cases++
	}
	fmt.Fprintf(os.Stdout, "CASES %d\n", cases)
}
