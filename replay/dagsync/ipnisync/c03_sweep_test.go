package ipnisync_test

// Bounded stand-in for C03 (labelled bounded; never counted as proved): real keys, real dag-json,
// real HTTP. (1) SignedHead: what NewSignedHead produces validates as the signer, survives
// Encode/Decode, and every alteration of CID, topic, key or signature is rejected. (2) What the
// real publisher serves as head for the root it was given verifies as the publisher. (3) The real
// client's GetHead against a server that serves, for a publisher identity P: an honest head, a
// head signed by another identity, and heads with altered fields - only the honest one yields a CID.

import (
	"bytes"
	"context"
	"fmt"
	"net/http"
	"net/http/httptest"
	"net/url"
	"os"
	"path"
	"sync"
	"testing"

	"github.com/ipfs/go-cid"
	cidlink "github.com/ipld/go-ipld-prime/linking/cid"
	"github.com/ipld/go-ipld-prime/storage/memstore"
	"github.com/ipni/go-libipni/dagsync/ipnisync"
	"github.com/ipni/go-libipni/dagsync/ipnisync/head"
	"github.com/ipni/go-libipni/maurl"
	"github.com/libp2p/go-libp2p/core/crypto"
	"github.com/libp2p/go-libp2p/core/peer"
	"github.com/multiformats/go-multiaddr"
	"github.com/multiformats/go-multihash"
)

func verifC03Cid(s string) cid.Cid {
	mh, _ := multihash.Sum([]byte(s), multihash.SHA2_256, -1)
	return cid.NewCidV1(cid.Raw, mh)
}

func TestVerifC03Sweep(t *testing.T) {
	cases := 0
	newID := func() (crypto.PrivKey, peer.ID) {
		k, pub, err := crypto.GenerateEd25519Key(nil)
		if err != nil {
			t.Fatal(err)
		}
		id, _ := peer.IDFromPublicKey(pub)
		return k, id
	}
	pubKey, pubID := newID()
	otherKey, otherID := newID()
	mustFail := func(what string, sh *head.SignedHead) {
		defer func() {
			if r := recover(); r != nil {
				t.Fatalf("%s: Validate panicked: %v", what, r)
			}
		}()
		if id, err := sh.Validate(); err == nil {
			t.Fatalf("%s: validates (as %s)", what, id)
		}
		cases++
	}
	clone := func(sh *head.SignedHead) *head.SignedHead {
		c := *sh
		c.Pubkey = append([]byte(nil), sh.Pubkey...)
		c.Sig = append([]byte(nil), sh.Sig...)
		if sh.Topic != nil {
			tp := *sh.Topic
			c.Topic = &tp
		}
		return &c
	}
	otherHead, _ := head.NewSignedHead(verifC03Cid("x"), "t", otherKey)
	for _, topic := range []string{"", "a", "/indexer/ingest/mainnet", "topic with spaces"} {
		for _, cs := range []string{"one", "two"} {
			c := verifC03Cid(cs)
			sh, err := head.NewSignedHead(c, topic, pubKey)
			if err != nil {
				t.Fatal(err)
			}
			label := fmt.Sprintf("topic %q cid %s", topic, cs)
			if id, err := sh.Validate(); err != nil || id != pubID {
				t.Fatalf("%s: a head signed by the library does not validate as its signer: %v", label, err)
			}
			enc, err := sh.Encode()
			if err != nil {
				t.Fatal(err)
			}
			dec, err := head.Decode(bytes.NewReader(enc))
			if err != nil {
				t.Fatalf("%s: decode: %v", label, err)
			}
			if id, err := dec.Validate(); err != nil || id != pubID || dec.Head.(cidlink.Link).Cid != c {
				t.Fatalf("%s: does not validate after encode/decode: %v", label, err)
			}
			cases += 2
			m := clone(sh)
			m.Head = cidlink.Link{Cid: verifC03Cid("three")}
			mustFail(label+": CID changed", m)
			m = clone(sh)
			tp := topic + "x"
			m.Topic = &tp
			mustFail(label+": topic extended", m)
			if topic != "" {
				m = clone(sh)
				m.Topic = nil
				mustFail(label+": topic removed", m)
				m = clone(sh)
				tp2 := topic[:len(topic)-1]
				m.Topic = &tp2
				mustFail(label+": topic shortened", m)
			}
			m = clone(sh)
			m.Pubkey = otherHead.Pubkey
			mustFail(label+": key replaced by another identity's", m)
			m = clone(sh)
			m.Pubkey = nil
			mustFail(label+": key removed", m)
			m = clone(sh)
			m.Sig = nil
			mustFail(label+": signature removed", m)
			m = clone(sh)
			m.Sig = otherHead.Sig
			mustFail(label+": signature replaced", m)
			for k := 0; k < len(sh.Sig); k += 3 {
				m = clone(sh)
				m.Sig[k] ^= 0x20
				mustFail(fmt.Sprintf("%s: signature byte %d altered", label, k), m)
			}
			for k := 0; k < len(sh.Pubkey); k += 3 {
				m = clone(sh)
				m.Pubkey[k] ^= 0x20
				mustFail(fmt.Sprintf("%s: key byte %d altered", label, k), m)
			}
		}
	}

	// (2) + (3): publisher and client
	ctx := context.Background()
	ls := cidlink.DefaultLinkSystem()
	st := &memstore.Store{}
	ls.SetWriteStorage(st)
	ls.SetReadStorage(st)
	const topic = "/verif/topic"
	pub, err := ipnisync.NewPublisher(ls, pubKey, ipnisync.WithHTTPListenAddrs("127.0.0.1:0"), ipnisync.WithStartServer(false), ipnisync.WithHeadTopic(topic))
	if err != nil {
		t.Fatal(err)
	}
	defer pub.Close()
	root := verifC03Cid("root")
	pub.SetRoot(root)
	rr := httptest.NewRecorder()
	pub.ServeHTTP(rr, httptest.NewRequest("GET", "/ipni/v1/ad/head", nil))
	served, err := head.Decode(bytes.NewReader(rr.Body.Bytes()))
	if err != nil {
		t.Fatalf("publisher head does not decode: %v", err)
	}
	if id, err := served.Validate(); err != nil || id != pubID || served.Head.(cidlink.Link).Cid != root || served.Topic == nil || *served.Topic != topic {
		t.Fatalf("what the publisher serves as head does not verify as the publisher for its root and topic: %v", err)
	}
	cases++

	var mu sync.Mutex
	var body []byte
	srv := httptest.NewServer(http.HandlerFunc(func(w http.ResponseWriter, r *http.Request) {
		if path.Base(r.URL.Path) == "head" {
			mu.Lock()
			b := body
			mu.Unlock()
			w.Write(b)
			return
		}
		http.NotFound(w, r)
	}))
	defer srv.Close()
	u, _ := url.Parse(srv.URL)
	maddr, err := maurl.FromURL(u)
	if err != nil {
		t.Fatal(err)
	}
	getHead := func(asked peer.ID, sh *head.SignedHead) (cid.Cid, error) {
		enc, err := sh.Encode()
		if err != nil {
			t.Fatal(err)
		}
		mu.Lock()
		body = enc
		mu.Unlock()
		sy := ipnisync.NewSync(ls, nil)
		defer sy.Close()
		syncer, err := sy.NewSyncer(peer.AddrInfo{ID: asked, Addrs: []multiaddr.Multiaddr{maddr}})
		if err != nil {
			t.Fatal(err)
		}
		return syncer.GetHead(ctx)
	}
	honest, _ := head.NewSignedHead(root, topic, pubKey)
	if c, err := getHead(pubID, honest); err != nil || c != root {
		t.Fatalf("client rejects an honest head: %v", err)
	}
	cases++
	byOther, _ := head.NewSignedHead(root, topic, otherKey)
	if c, err := getHead(pubID, byOther); err == nil {
		t.Fatalf("client accepted a head validly signed by another identity (%s) for publisher %s: %s", otherID, pubID, c)
	} else if c != cid.Undef {
		t.Fatalf("client returned a CID together with an error")
	}
	cases++
	if c, err := getHead(otherID, byOther); err != nil || c != root {
		t.Fatalf("client rejects a head signed by the identity asked for: %v", err)
	}
	cases++
	for name, mut := range map[string]func(*head.SignedHead){
		"cid":   func(s *head.SignedHead) { s.Head = cidlink.Link{Cid: verifC03Cid("evil")} },
		"topic": func(s *head.SignedHead) { tp := "/other"; s.Topic = &tp },
		"sig":   func(s *head.SignedHead) { s.Sig[5] ^= 1 },
		"key":   func(s *head.SignedHead) { s.Pubkey = byOther.Pubkey },
	} {
		m := clone(honest)
		mut(m)
		if c, err := getHead(pubID, m); err == nil {
			t.Fatalf("client accepted a head with altered %s: %s", name, c)
		}
		cases++
	}
	fmt.Fprintf(os.Stdout, "CASES %d\n", cases)
}
