package ipnisync_test

// Bounded stand-in for C02 (labelled bounded; never counted as proved). The contracts
// decide the fetchBlock callback protocol (hash named by the CID, compare, commit after);
// that multihash.SumStream / the link system behave as assumed is dependency behaviour and
// is sampled here on the real client against a server that tampers with one block of a
// chain in several ways. A tampered block must never be stored or reported, the sync must
// fail, and the blocks stored are exactly the honest ones fetched before it.

import (
	"context"
	"fmt"
	"net/http"
	"net/http/httptest"
	"net/url"
	"os"
	"path"
	"sync"
	"testing"

	"github.com/ipfs/go-cid"
	"github.com/ipld/go-ipld-prime"
	"github.com/ipld/go-ipld-prime/fluent"
	cidlink "github.com/ipld/go-ipld-prime/linking/cid"
	basicnode "github.com/ipld/go-ipld-prime/node/basic"
	"github.com/ipld/go-ipld-prime/storage/memstore"
	"github.com/ipld/go-ipld-prime/traversal/selector"
	"github.com/ipld/go-ipld-prime/traversal/selector/builder"
	"github.com/ipni/go-libipni/dagsync/ipnisync"
	"github.com/ipni/go-libipni/ingest/schema"
	"github.com/ipni/go-libipni/maurl"
	"github.com/libp2p/go-libp2p/core/crypto"
	"github.com/libp2p/go-libp2p/core/peer"
	"github.com/multiformats/go-multiaddr"
)

type verifC02Recorder struct {
	rec    *httptest.ResponseRecorder
	header http.Header
}

func TestVerifC02Tamper(t *testing.T) {
	ctx := context.Background()
	privKey, pubKey, err := crypto.GenerateEd25519Key(nil)
	if err != nil {
		t.Fatal(err)
	}
	pubID, err := peer.IDFromPublicKey(pubKey)
	if err != nil {
		t.Fatal(err)
	}
	publs := cidlink.DefaultLinkSystem()
	pubstore := &memstore.Store{}
	publs.SetWriteStorage(pubstore)
	publs.SetReadStorage(pubstore)
	pub, err := ipnisync.NewPublisher(publs, privKey, ipnisync.WithHTTPListenAddrs("127.0.0.1:0"), ipnisync.WithStartServer(false))
	if err != nil {
		t.Fatal(err)
	}
	defer pub.Close()

	const chainLen = 5
	chain := make([]cid.Cid, chainLen)
	var prev ipld.Link
	for i := chainLen - 1; i >= 0; i-- {
		n := fluent.MustBuildMap(basicnode.Prototype.Map, 2, func(na fluent.MapAssembler) {
			na.AssembleEntry("Seq").AssignInt(int64(chainLen - i))
			if prev != nil {
				na.AssembleEntry("PreviousID").AssignLink(prev)
			}
		})
		lnk, err := publs.Store(ipld.LinkContext{}, schema.Linkproto, n)
		if err != nil {
			t.Fatal(err)
		}
		chain[i] = lnk.(cidlink.Link).Cid
		prev = lnk
	}
	pub.SetRoot(chain[0])

	// what the honest publisher serves for each block
	honest := map[string][]byte{}
	for _, c := range chain {
		rr := httptest.NewRecorder()
		req := httptest.NewRequest("GET", "/ipni/v1/ad/"+c.String(), nil)
		pub.ServeHTTP(rr, req)
		if rr.Code != 200 {
			t.Fatalf("publisher does not serve block %s: %d", c, rr.Code)
		}
		honest[c.String()] = rr.Body.Bytes()
	}

	modes := []string{"flip-first", "flip-last", "truncate", "append", "other-block", "empty", "whitespace-prefix"}
	var mu sync.Mutex
	tamperCid, tamperMode := "", ""
	srv := httptest.NewServer(http.HandlerFunc(func(w http.ResponseWriter, r *http.Request) {
		mu.Lock()
		tc, tm := tamperCid, tamperMode
		mu.Unlock()
		ask := path.Base(r.URL.Path)
		if ask != tc {
			pub.ServeHTTP(w, r)
			return
		}
		b := append([]byte(nil), honest[ask]...)
		switch tm {
		case "flip-first":
			b[0] ^= 0x01
		case "flip-last":
			b[len(b)-1] ^= 0x01
		case "truncate":
			b = b[:len(b)-1]
		case "append":
			b = append(b, ' ')
		case "other-block":
			for k, v := range honest {
				if k != ask {
					b = append([]byte(nil), v...)
					break
				}
			}
		case "empty":
			b = nil
		case "whitespace-prefix":
			b = append([]byte{' '}, b...)
		}
		w.Write(b)
	}))
	defer srv.Close()

	u, err := url.Parse(srv.URL)
	if err != nil {
		t.Fatal(err)
	}
	maddr, err := maurl.FromURL(u)
	if err != nil {
		t.Fatal(err)
	}
	ssb := builder.NewSelectorSpecBuilder(basicnode.Prototype.Any)
	sel := ssb.ExploreRecursive(selector.RecursionLimitNone(), ssb.ExploreFields(func(efsb builder.ExploreFieldsSpecBuilder) {
		efsb.Insert("PreviousID", ssb.ExploreRecursiveEdge())
	})).Node()

	cases := 0
	run := func(k int, mode string) {
		mu.Lock()
		tamperCid, tamperMode = "", ""
		if k >= 0 {
			tamperCid, tamperMode = chain[k].String(), mode
		}
		mu.Unlock()
		ls := cidlink.DefaultLinkSystem()
		store := &memstore.Store{}
		ls.SetWriteStorage(store)
		ls.SetReadStorage(store)
		var hooked []cid.Cid
		sy := ipnisync.NewSync(ls, func(_ peer.ID, c cid.Cid) { hooked = append(hooked, c) })
		defer sy.Close()
		syncer, err := sy.NewSyncer(peer.AddrInfo{ID: pubID, Addrs: []multiaddr.Multiaddr{maddr}})
		if err != nil {
			t.Fatal(err)
		}
		sctx, err := ipnisync.CtxWithCidSchema(ctx, ipnisync.CidSchemaAdvertisement)
		if err != nil {
			t.Fatal(err)
		}
		err = syncer.Sync(sctx, chain[0], sel)
		label := fmt.Sprintf("tamper block #%d (%s)", k, mode)
		if k < 0 {
			if err != nil {
				t.Fatalf("honest sync failed: %v", err)
			}
			if len(hooked) != chainLen {
				t.Fatalf("honest sync reported %d blocks, want %d", len(hooked), chainLen)
			}
			for i := range hooked {
				if hooked[i] != chain[i] {
					t.Fatalf("honest sync: hook call %d out of order", i)
				}
			}
			return
		}
		if err == nil {
			t.Fatalf("%s: sync succeeded", label)
		}
		if len(hooked) != 0 {
			t.Fatalf("%s: %d blocks were reported to the hook by a failed sync", label, len(hooked))
		}
		if _, ok := store.Bag[chain[k].KeyString()]; ok {
			t.Fatalf("%s: the tampered block was stored", label)
		}
		for i := 0; i < chainLen; i++ {
			got, ok := store.Bag[chain[i].KeyString()]
			if i < k {
				if !ok {
					t.Fatalf("%s: honest block #%d fetched before it is missing", label, i)
				}
				if string(got) != string(honest[chain[i].String()]) {
					t.Fatalf("%s: stored bytes of block #%d differ from what was served", label, i)
				}
			} else if ok {
				t.Fatalf("%s: block #%d at or after the tampered one was stored", label, i)
			}
		}
		for key := range store.Bag {
			known := false
			for _, c := range chain {
				if c.KeyString() == key {
					known = true
				}
			}
			if !known {
				t.Fatalf("%s: something was stored under a key that is no block of the chain", label)
			}
		}
	}
	run(-1, "honest")
	cases++
	for k := 0; k < chainLen; k++ {
		for _, m := range modes {
			run(k, m)
			cases++
		}
	}
	fmt.Fprintf(os.Stdout, "CASES %d\n", cases)
}
