package ipnisync_test

// Bounded stand-in for C04, client half (labelled bounded; never counted as proved): the real
// ipnisync client against an HTTP server that fails the k-th block request of a sync with a given
// status (or by dropping the connection). The failed sync must report nothing, and a following
// fault-free sync on the same Syncer must succeed using the same URL layout as before (the server
// only serves under /ipni/v1/ad/), with every block reported once.

import (
	"context"
	"fmt"
	"net/http"
	"net/http/httptest"
	"net/url"
	"os"
	"path"
	"strings"
	"sync"
	"testing"

	"github.com/ipfs/go-cid"
	"github.com/ipld/go-ipld-prime"
	"github.com/ipld/go-ipld-prime/fluent"
	cidlink "github.com/ipld/go-ipld-prime/linking/cid"
	basicnode "github.com/ipld/go-ipld-prime/node/basic"
	"github.com/ipld/go-ipld-prime/storage/memstore"
	"github.com/ipld/go-ipld-prime/traversal/selector"
	"github.com/ipld/go-ipld-prime/traversal/selector/builder"
	"github.com/ipni/go-libipni/dagsync/ipnisync"
	"github.com/ipni/go-libipni/ingest/schema"
	"github.com/ipni/go-libipni/maurl"
	"github.com/libp2p/go-libp2p/core/crypto"
	"github.com/libp2p/go-libp2p/core/peer"
	"github.com/multiformats/go-multiaddr"
)

func TestVerifC04Faults(t *testing.T) {
	ctx := context.Background()
	privKey, pubKey, err := crypto.GenerateEd25519Key(nil)
	if err != nil {
		t.Fatal(err)
	}
	pubID, _ := peer.IDFromPublicKey(pubKey)
	publs := cidlink.DefaultLinkSystem()
	pubstore := &memstore.Store{}
	publs.SetWriteStorage(pubstore)
	publs.SetReadStorage(pubstore)
	pub, err := ipnisync.NewPublisher(publs, privKey, ipnisync.WithHTTPListenAddrs("127.0.0.1:0"), ipnisync.WithStartServer(false))
	if err != nil {
		t.Fatal(err)
	}
	defer pub.Close()
	const chainLen = 4
	chain := make([]cid.Cid, chainLen)
	var prev ipld.Link
	for i := chainLen - 1; i >= 0; i-- {
		n := fluent.MustBuildMap(basicnode.Prototype.Map, 2, func(na fluent.MapAssembler) {
			na.AssembleEntry("Seq").AssignInt(int64(chainLen - i))
			if prev != nil {
				na.AssembleEntry("PreviousID").AssignLink(prev)
			}
		})
		lnk, err := publs.Store(ipld.LinkContext{}, schema.Linkproto, n)
		if err != nil {
			t.Fatal(err)
		}
		chain[i] = lnk.(cidlink.Link).Cid
		prev = lnk
	}
	pub.SetRoot(chain[0])

	var mu sync.Mutex
	failAt, failStatus, seenBlocks := -1, 0, 0
	var paths []string
	srv := httptest.NewServer(http.HandlerFunc(func(w http.ResponseWriter, r *http.Request) {
		ask := path.Base(r.URL.Path)
		if _, err := cid.Decode(ask); err == nil {
			mu.Lock()
			paths = append(paths, r.URL.Path)
			k := seenBlocks
			seenBlocks++
			fa, fs := failAt, failStatus
			mu.Unlock()
			if !strings.HasPrefix(r.URL.Path, "/ipni/v1/ad/") {
				http.NotFound(w, r) // this server has no legacy layout
				return
			}
			if k == fa {
				if fs == 0 {
					if hj, ok := w.(http.Hijacker); ok {
						c, _, _ := hj.Hijack()
						c.Close()
						return
					}
				}
				http.Error(w, "injected", fs)
				return
			}
		}
		pub.ServeHTTP(w, r)
	}))
	defer srv.Close()
	u, _ := url.Parse(srv.URL)
	maddr, err := maurl.FromURL(u)
	if err != nil {
		t.Fatal(err)
	}
	ssb := builder.NewSelectorSpecBuilder(basicnode.Prototype.Any)
	sel := ssb.ExploreRecursive(selector.RecursionLimitNone(), ssb.ExploreFields(func(efsb builder.ExploreFieldsSpecBuilder) {
		efsb.Insert("PreviousID", ssb.ExploreRecursiveEdge())
	})).Node()

	cases := 0
	for _, status := range []int{404, 403, 500, 502, 503, 429, 0} {
		for k := 0; k < chainLen; k++ {
			label := fmt.Sprintf("status %d on block request %d", status, k)
			ls := cidlink.DefaultLinkSystem()
			store := &memstore.Store{}
			ls.SetWriteStorage(store)
			ls.SetReadStorage(store)
			var hooked []cid.Cid
			sy := ipnisync.NewSync(ls, func(_ peer.ID, c cid.Cid) { hooked = append(hooked, c) })
			syncer, err := sy.NewSyncer(peer.AddrInfo{ID: pubID, Addrs: []multiaddr.Multiaddr{maddr}})
			if err != nil {
				t.Fatal(err)
			}
			sctx, _ := ipnisync.CtxWithCidSchema(ctx, ipnisync.CidSchemaAdvertisement)
			mu.Lock()
			failAt, failStatus, seenBlocks, paths = k, status, 0, nil
			mu.Unlock()
			if err := syncer.Sync(sctx, chain[0], sel); err == nil {
				if status == 0 {
					// net/http transparently retried the dropped connection: nothing failed
					sy.Close()
					cases++
					continue
				}
				t.Fatalf("%s: the sync succeeded", label)
			}
			if len(hooked) != 0 {
				t.Fatalf("%s: the failed sync reported %d blocks", label, len(hooked))
			}
			// the same syncer, no faults: must work, under the same layout
			mu.Lock()
			failAt, seenBlocks, paths = -1, 0, nil
			mu.Unlock()
			if err := syncer.Sync(sctx, chain[0], sel); err != nil {
				t.Fatalf("%s: the next sync on the same syncer failed: %v", label, err)
			}
			if len(hooked) != chainLen {
				t.Fatalf("%s: the next sync reported %d blocks, want %d", label, len(hooked), chainLen)
			}
			for i := range hooked {
				if hooked[i] != chain[i] {
					t.Fatalf("%s: the next sync reported block %d out of order", label, i)
				}
			}
			mu.Lock()
			for _, p := range paths {
				if !strings.HasPrefix(p, "/ipni/v1/ad/") {
					mu.Unlock()
					t.Fatalf("%s: after the failure the client asks for %s (URL layout changed for good)", label, p)
				}
			}
			mu.Unlock()
			sy.Close()
			cases++
		}
	}
	fmt.Fprintf(os.Stdout, "CASES %d\n", cases)
}
