package dagsync_test

// Bounded stand-in for C15 (labelled bounded; never counted as proved): every
// entry point of a closed subscriber returns promptly. Each call runs under a
// watchdog on the real Subscriber.

import (
	"context"
	"fmt"
	"sync/atomic"
	"testing"
	"time"

	"github.com/ipfs/go-cid"
	"github.com/ipfs/go-datastore"
	dssync "github.com/ipfs/go-datastore/sync"
	"github.com/ipld/go-ipld-prime"
	"github.com/ipld/go-ipld-prime/fluent"
	cidlink "github.com/ipld/go-ipld-prime/linking/cid"
	basicnode "github.com/ipld/go-ipld-prime/node/basic"
	"github.com/ipni/go-libipni/dagsync"
	"github.com/ipni/go-libipni/dagsync/ipnisync"
	"github.com/ipni/go-libipni/dagsync/test"
	"github.com/ipni/go-libipni/ingest/schema"
	"github.com/libp2p/go-libp2p/core/peer"
)

func verifWatchdog(t *testing.T, what string, f func()) {
	t.Helper()
	done := make(chan struct{})
	go func() { f(); close(done) }()
	select {
	case <-done:
	case <-time.After(3 * time.Second):
		t.Fatalf("%s did not return within 3s on a closed subscriber", what)
	}
}

func TestVerifC15AfterClose(t *testing.T) {
	cases := 0
	for _, withHost := range []bool{true, false} {
		for _, closes := range []int{1, 2} {
			st := dssync.MutexWrap(datastore.NewMapDatastore())
			lsys := test.MkLinkSystem(st)
			var sub *dagsync.Subscriber
			var err error
			if withHost {
				sub, err = dagsync.NewSubscriber(test.MkTestHost(t), lsys, dagsync.StrictAdsSelector(false))
			} else {
				sub, err = dagsync.NewSubscriber(nil, lsys, dagsync.StrictAdsSelector(false))
			}
			if err != nil {
				t.Fatal(err)
			}
			early, earlyCancel := sub.OnSyncFinished()
			for i := 0; i < closes; i++ {
				verifWatchdog(t, "Close", func() {
					if err := sub.Close(); err != nil {
						t.Errorf("Close: %v", err)
					}
				})
			}
			// a listener registered before Close sees its channel closed
			verifWatchdog(t, "read of an early listener", func() {
				for range early {
				}
			})
			verifWatchdog(t, "cancel of an early listener", earlyCancel)
			// registration after Close returns promptly with a channel that is (or becomes) closed
			var late <-chan dagsync.SyncFinished
			var lateCancel context.CancelFunc
			verifWatchdog(t, "OnSyncFinished", func() { late, lateCancel = sub.OnSyncFinished() })
			verifWatchdog(t, "read of a late listener", func() {
				for range late {
				}
			})
			verifWatchdog(t, "cancel of a late listener", lateCancel)
			verifWatchdog(t, "cancel twice", lateCancel)
			pid := peer.ID("12D3KooWnobody")
			verifWatchdog(t, "SyncAdChain", func() {
				if _, err := sub.SyncAdChain(context.Background(), peer.AddrInfo{ID: pid}); err == nil {
					t.Errorf("SyncAdChain on a closed subscriber returned no error")
				}
			})
			verifWatchdog(t, "SyncOneEntry", func() {
				c, _ := cid.Decode("bafkreigh2akiscaildcqabsyg3dfr6chu3fgpregiymsck7e7aqa4s52zy")
				if err := sub.SyncOneEntry(context.Background(), peer.AddrInfo{ID: pid}, c); err == nil {
					t.Errorf("SyncOneEntry on a closed subscriber returned no error")
				}
			})
			verifWatchdog(t, "Announce", func() {
				c, _ := cid.Decode("bafkreigh2akiscaildcqabsyg3dfr6chu3fgpregiymsck7e7aqa4s52zy")
				_ = sub.Announce(context.Background(), c, peer.AddrInfo{ID: pid})
			})
			verifWatchdog(t, "GetLatestSync / RemoveHandler", func() {
				_ = sub.GetLatestSync(pid)
				_ = sub.RemoveHandler(pid)
			})
			cases += 11
		}
	}
	fmt.Printf("CASES %d\n", cases)
}

// ---------------------------------------------------------------------------
// Close while syncs are running (scenarios with a block hook that holds a sync).

type verifC15Pub struct {
	pub      *ipnisync.Publisher
	lsys     ipld.LinkSystem
	peerInfo peer.AddrInfo
	head     ipld.Link
	n        int
}

func verifC15NewPub(t *testing.T) *verifC15Pub {
	srcHost, srcPrivKey := test.MkTestHostPK(t)
	lsys := test.MkLinkSystem(dssync.MutexWrap(datastore.NewMapDatastore()))
	pub, err := ipnisync.NewPublisher(lsys, srcPrivKey, ipnisync.WithStreamHost(srcHost))
	if err != nil {
		t.Fatal(err)
	}
	t.Cleanup(func() { pub.Close() })
	return &verifC15Pub{pub: pub, lsys: lsys, peerInfo: peer.AddrInfo{ID: srcHost.ID(), Addrs: srcHost.Addrs()}}
}

func (p *verifC15Pub) extend(t *testing.T) cid.Cid {
	p.n++
	n := fluent.MustBuildMap(basicnode.Prototype.Map, 3, func(na fluent.MapAssembler) {
		na.AssembleEntry("Pub").AssignString(p.peerInfo.ID.String())
		na.AssembleEntry("Seq").AssignInt(int64(p.n))
		if p.head != nil {
			na.AssembleEntry("PreviousID").AssignLink(p.head)
		}
	})
	lnk, err := p.lsys.Store(ipld.LinkContext{}, schema.Linkproto, n)
	if err != nil {
		t.Fatal(err)
	}
	p.head = lnk
	c := lnk.(cidlink.Link).Cid
	p.pub.SetRoot(c)
	return c
}

func TestVerifC15CloseDuringSyncs(t *testing.T) {
	cases := 0
	ctx := context.Background()
	dstHost := test.MkTestHost(t)
	const long = 20 * time.Second
	notYet := func(what string, ch <-chan struct{}) {
		select {
		case <-ch:
			t.Fatalf("%s returned while a sync it has to wait for was still running", what)
		case <-time.After(250 * time.Millisecond):
		}
	}
	must := func(what string, ch <-chan struct{}) {
		select {
		case <-ch:
		case <-time.After(long):
			t.Fatalf("%s did not return", what)
		}
	}

	// (1) Close (twice, concurrently) waits for a running explicit sync, whose notification still reaches
	// the listener before its channel is closed; nothing happens after Close returned.
	{
		p := verifC15NewPub(t)
		lsys := test.MkLinkSystem(dssync.MutexWrap(datastore.NewMapDatastore()))
		sub, err := dagsync.NewSubscriber(dstHost, lsys, dagsync.StrictAdsSelector(false))
		if err != nil {
			t.Fatal(err)
		}
		events, cancelEvents := sub.OnSyncFinished()
		head := p.extend(t)
		entered, gate := make(chan struct{}), make(chan struct{})
		var hookCalls int32
		var closedReturned int32
		syncDone := make(chan error, 1)
		go func() {
			_, err := sub.SyncAdChain(ctx, p.peerInfo, dagsync.ScopedBlockHook(func(peer.ID, cid.Cid, dagsync.SegmentSyncActions) {
				if atomic.LoadInt32(&closedReturned) != 0 {
					t.Errorf("block hook called after Close returned")
				}
				if atomic.AddInt32(&hookCalls, 1) == 1 {
					close(entered)
					<-gate
				}
			}))
			syncDone <- err
		}()
		must("the explicit sync reaching its hook", entered)
		close1, close2 := make(chan struct{}), make(chan struct{})
		go func() { sub.Close(); atomic.StoreInt32(&closedReturned, 1); close(close1) }()
		time.Sleep(50 * time.Millisecond)
		go func() { sub.Close(); close(close2) }()
		notYet("Close", close1)
		notYet("a second, concurrent Close", close2)
		close(gate)
		select {
		case err := <-syncDone:
			if err != nil {
				t.Fatalf("the explicit sync that was running when Close started failed: %v", err)
			}
		case <-time.After(long):
			t.Fatal("the explicit sync did not finish")
		}
		must("Close", close1)
		must("the second Close", close2)
		select {
		case ev, open := <-events:
			if !open {
				t.Fatal("the listener's channel was closed before the notification of the sync that Close waited for")
			}
			if ev.Cid != head || ev.Err != nil {
				t.Fatalf("unexpected notification %v", ev)
			}
		case <-time.After(long):
			t.Fatal("no notification for the sync that Close waited for")
		}
		select {
		case _, open := <-events:
			if open {
				t.Fatal("extra notification after Close")
			}
		case <-time.After(long):
			t.Fatal("listener channel not closed after Close")
		}
		cancelEvents()
		// explicit syncs after Close are refused
		if _, err := sub.SyncAdChain(ctx, p.peerInfo); err == nil {
			t.Fatal("SyncAdChain after Close succeeded")
		}
		cases++
	}

	// (2) Close while one announce-triggered sync is held and another waits for the only concurrency slot
	{
		pa, pb := verifC15NewPub(t), verifC15NewPub(t)
		lsys := test.MkLinkSystem(dssync.MutexWrap(datastore.NewMapDatastore()))
		entered, gate := make(chan peer.ID, 4), make(chan struct{})
		sub, err := dagsync.NewSubscriber(dstHost, lsys, dagsync.StrictAdsSelector(false), dagsync.RecvAnnounce(""), dagsync.MaxAsyncConcurrency(1),
			dagsync.BlockHook(func(pid peer.ID, _ cid.Cid, _ dagsync.SegmentSyncActions) {
				entered <- pid
				<-gate
			}))
		if err != nil {
			t.Fatal(err)
		}
		ha, hb := pa.extend(t), pb.extend(t)
		if err := sub.Announce(ctx, ha, pa.peerInfo); err != nil {
			t.Fatal(err)
		}
		select {
		case <-entered:
		case <-time.After(long):
			t.Fatal("the announce-triggered sync never reached its hook")
		}
		if err := sub.Announce(ctx, hb, pb.peerInfo); err != nil {
			t.Fatal(err)
		}
		time.Sleep(100 * time.Millisecond) // let the second announcement queue up for the slot
		closed := make(chan struct{})
		go func() { sub.Close(); close(closed) }()
		notYet("Close", closed)
		close(gate)
		must("Close with an announce-triggered sync waiting for a slot", closed)
		cases++
	}
	fmt.Printf("CASES %d\n", cases)
}
