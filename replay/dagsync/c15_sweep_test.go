package dagsync_test

// Bounded stand-in for C15 (labelled bounded; never counted as proved): every
// entry point of a closed subscriber returns promptly. Each call runs under a
// watchdog on the real Subscriber.

import (
	"context"
	"fmt"
	"testing"
	"time"

	"github.com/ipfs/go-cid"
	"github.com/ipfs/go-datastore"
	dssync "github.com/ipfs/go-datastore/sync"
	"github.com/ipni/go-libipni/dagsync"
	"github.com/ipni/go-libipni/dagsync/test"
	"github.com/libp2p/go-libp2p/core/peer"
)

func verifWatchdog(t *testing.T, what string, f func()) {
	t.Helper()
	done := make(chan struct{})
	go func() { f(); close(done) }()
	select {
	case <-done:
	case <-time.After(3 * time.Second):
		t.Fatalf("%s did not return within 3s on a closed subscriber", what)
	}
}

func TestVerifC15AfterClose(t *testing.T) {
	cases := 0
	for _, withHost := range []bool{true, false} {
		for _, closes := range []int{1, 2} {
			st := dssync.MutexWrap(datastore.NewMapDatastore())
			lsys := test.MkLinkSystem(st)
			var sub *dagsync.Subscriber
			var err error
			if withHost {
				sub, err = dagsync.NewSubscriber(test.MkTestHost(t), lsys, dagsync.StrictAdsSelector(false))
			} else {
				sub, err = dagsync.NewSubscriber(nil, lsys, dagsync.StrictAdsSelector(false))
			}
			if err != nil {
				t.Fatal(err)
			}
			early, earlyCancel := sub.OnSyncFinished()
			for i := 0; i < closes; i++ {
				verifWatchdog(t, "Close", func() {
					if err := sub.Close(); err != nil {
						t.Errorf("Close: %v", err)
					}
				})
			}
			// a listener registered before Close sees its channel closed
			verifWatchdog(t, "read of an early listener", func() {
				for range early {
				}
			})
			verifWatchdog(t, "cancel of an early listener", earlyCancel)
			// registration after Close returns promptly with a channel that is (or becomes) closed
			var late <-chan dagsync.SyncFinished
			var lateCancel context.CancelFunc
			verifWatchdog(t, "OnSyncFinished", func() { late, lateCancel = sub.OnSyncFinished() })
			verifWatchdog(t, "read of a late listener", func() {
				for range late {
				}
			})
			verifWatchdog(t, "cancel of a late listener", lateCancel)
			verifWatchdog(t, "cancel twice", lateCancel)
			pid := peer.ID("12D3KooWnobody")
			verifWatchdog(t, "SyncAdChain", func() {
				if _, err := sub.SyncAdChain(context.Background(), peer.AddrInfo{ID: pid}); err == nil {
					t.Errorf("SyncAdChain on a closed subscriber returned no error")
				}
			})
			verifWatchdog(t, "SyncOneEntry", func() {
				c, _ := cid.Decode("bafkreigh2akiscaildcqabsyg3dfr6chu3fgpregiymsck7e7aqa4s52zy")
				if err := sub.SyncOneEntry(context.Background(), peer.AddrInfo{ID: pid}, c); err == nil {
					t.Errorf("SyncOneEntry on a closed subscriber returned no error")
				}
			})
			verifWatchdog(t, "Announce", func() {
				c, _ := cid.Decode("bafkreigh2akiscaildcqabsyg3dfr6chu3fgpregiymsck7e7aqa4s52zy")
				_ = sub.Announce(context.Background(), c, peer.AddrInfo{ID: pid})
			})
			verifWatchdog(t, "GetLatestSync / RemoveHandler", func() {
				_ = sub.GetLatestSync(pid)
				_ = sub.RemoveHandler(pid)
			})
			cases += 11
		}
	}
	fmt.Printf("CASES %d\n", cases)
}
