package mautil

// Scratch functions for the engine self-test (selftest/engine.sh): never part of /repo.

type znode struct {
	next *znode
	val  int
}

func zwalk(n *znode, other *znode) {
	for n != nil {
		n.val = 0
		n = n.next
	}
}

func zfill(a, b *znode, k int) {
	for i := 0; i < k; i++ {
		a.val = i
	}
}

func zfillmap(m, o map[string]int, ks []string) {
	for _, s := range ks {
		m[s] = 1
	}
}

type zbox struct{ cur *znode }

func zheap(h *zbox, other *znode, k int) {
	for i := 0; i < k; i++ {
		h.cur.val = 0
		h.cur = h.cur.next
	}
}

func zcat(parts ...[]byte) int {
	n := 0
	for _, p := range parts {
		n += len(p)
	}
	return n
}

type zopt func(*int)

func zapply(opts []zopt) int {
	x := 1
	for _, o := range opts {
		o(&x)
	}
	return x
}

func zapplyclamp(opts []zopt) int {
	x := 1
	for _, o := range opts {
		o(&x)
	}
	if x > 5 {
		x = 5
	}
	return x
}
