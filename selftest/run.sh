#!/bin/sh
# Must-fail / must-pass selftest of the verifier. Every patch in selftest/mutants
# (a property-breaking change that compiles and passes the pinned tests) is applied
# to a scratch worktree of /repo and the property's quick check must exit 1 with a
# VIOLATION line; every patch in selftest/benign must keep exit 0.
# usage: selftest/run.sh [pattern]
export GOFLAGS=-mod=mod GOPROXY=off
cd /verif
[ -x bin/govc ] || (cd govc && go build -o /verif/bin/govc .) || exit 2
W=$(mktemp -d /tmp/verif-selftest.XXXXXX)
O=$(mktemp -d /tmp/verif-selftest-out.XXXXXX)
trap 'git -C /repo worktree remove --force "$W/repo" >/dev/null 2>&1; rm -rf "$W" "$O"' EXIT
git -C /repo worktree add --detach "$W/repo" HEAD >/dev/null 2>&1 || { echo "cannot create worktree"; exit 2; }
# uncommitted contract files of /repo are part of the tree under test
(cd /repo && git ls-files -m -o --exclude-standard | grep contracts_verif.go | while read f; do mkdir -p "$W/repo/$(dirname $f)"; cp "$f" "$W/repo/$f"; done)
fail=0; n=0
for kind in mutants benign; do
  for p in selftest/$kind/*${1}*.patch; do
    [ -f "$p" ] || continue
    prop=$(basename "$p" | cut -d- -f1)
    n=$((n+1))
    (cd "$W/repo" && git apply "/verif/$p") || { echo "SELFTEST-ERROR $p does not apply"; fail=1; continue; }
    if [ "$prop" = ALL ]; then
      # a benign patch spanning packages: every property whose packages it touches
      dirs=$(grep '^+++ b/' "$p" | sed 's|^+++ b/||' | xargs -n1 dirname | sort -u | tr '\n' ' ')
      props=$(python3 -c "
import json,sys
dirs=set(sys.argv[1].split()); p=json.load(open('/verif/props.json'))
print(' '.join(k for k,v in p.items() if any(('./'+d) in v['packages'] for d in dirs)))" "$dirs")
      rc=0; : > "$O/log"
      for pr in $props; do GOVC_REPO="$W/repo" GOVC_OUT="$O" bin/govc check -prop "$pr" -tier quick >> "$O/log" 2>&1 || rc=1; done
    else
    GOVC_REPO="$W/repo" GOVC_OUT="$O" bin/govc check -prop "$prop" -tier quick > "$O/log" 2>&1; rc=$?
    fi
    hit=$(grep -c '^VIOLATION' "$O/log")
    if [ $kind = mutants ]; then
      if [ $rc -eq 1 ] && [ "$hit" -gt 0 ]; then echo "ok   caught  $p  ($(grep '^  obligation' "$O/log" | head -1 | cut -c1-110))"; else echo "MISS        $p (exit $rc)"; fail=1; tail -3 "$O/log"; fi
    else
      if [ $rc -eq 0 ]; then echo "ok   quiet   $p"; else echo "FALSE-ALARM $p (exit $rc)"; fail=1; grep '^  obligation\|^VIOLATION\|TOOL' "$O/log" | head -5; fi
    fi
    (cd "$W/repo" && git checkout -q -- . && git clean -fdq -e contracts_verif.go)
  done
done
echo "selftest: $n patches, fail=$fail"
exit $fail
