#!/bin/sh
# Must-fail / must-pass selftest of the verifier. Every patch in selftest/mutants
# (a deliberate property-breaking change, among them the reverts of all "fix:" commits) is applied
# to a scratch worktree of /repo and the property's quick check must exit 1 with a
# VIOLATION line; every patch in selftest/benign must keep exit 0. Four patches run at a time.
# usage: selftest/run.sh [pattern]
cd /verif
[ -x bin/govc ] || (cd govc && GOFLAGS=-mod=mod GOPROXY=off go build -o /verif/bin/govc .) || exit 2
L=$(mktemp /tmp/verif-selftest-list.XXXXXX)
trap 'rm -f "$L" "$L.out"' EXIT
for kind in mutants benign; do
  for p in selftest/$kind/*${1}*.patch; do [ -f "$p" ] && echo "$kind $p"; done
done > "$L"
n=$(wc -l < "$L")
xargs -P 4 -L 1 selftest/one.sh < "$L" | tee "$L.out"
fail=0
grep -q "^MISS\|^FALSE-ALARM\|^SELFTEST-ERROR" "$L.out" && fail=1
[ "$(grep -c '^ok ' "$L.out")" -eq "$n" ] || fail=1
echo "selftest: $n patches, fail=$fail"
exit $fail
