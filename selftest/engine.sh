#!/bin/sh
# Engine self-test: scratch functions (never part of /repo) whose verdict is known, run in a scratch worktree.
#  - ghosts set by hooks in a loop are havocked at the cut (zapply / zapplyclamp)
#  - loop havoc by rows: writes to one fixed object leave other objects alone (zfill, zfillmap must verify);
#    writes through a pointer that moves (zwalk: a local, zheap: a heap field) must NOT (ensures must fail).
export GOFLAGS=-mod=mod GOPROXY=off
cd /verif
[ -x bin/govc ] || (cd govc && go build -o /verif/bin/govc .)
W=$(mktemp -d /tmp/verif-engine.XXXXXX)
trap 'git -C /repo worktree remove --force "$W/repo" >/dev/null 2>&1; rm -rf "$W"' EXIT
git -C /repo worktree add --detach "$W/repo" HEAD >/dev/null 2>&1 || exit 2
cp selftest/engine/zz.go "$W/repo/mautil/zz.go"
cat selftest/engine/zz.contracts >> "$W/repo/mautil/contracts_verif.go"
out=$(GOVC_REPO="$W/repo" bin/govc verify -pkg ./mautil 2>&1)
rc=0
expect() { # function, "ok"|"fail <obligation>"
  blk=$(echo "$out" | awk -v f="== mautil.$1 " 'index($0,f)==1{p=1;print;next} /^== /{p=0} p{print}')
  if [ "$2" = ok ]; then
    echo "$blk" | grep -q "failed" && { echo "ENGINE-SELFTEST FAIL: $1 should verify"; echo "$blk" | head -5; rc=1; }
    echo "$blk" | grep -q "obligations discharged" || { echo "ENGINE-SELFTEST FAIL: $1 not verified"; rc=1; }
  else
    echo "$blk" | grep -q "failed .*$1#$3" || { echo "ENGINE-SELFTEST FAIL: $1#$3 should fail (unsound havoc?)"; echo "$blk" | head -5; rc=1; }
  fi
}
expect zfill ok
expect zfillmap ok
expect zwalk fail 'ensures#1'
expect zheap fail 'ensures#1'
# ghosts assigned by hooks (here keyed by the function value's type) are havocked at the loop cut: the value
# after the loop is what the last callback left (zapply verifies), and a later adjustment is seen (zapplyclamp fails)
expect zapply ok
expect zapplyclamp fail 'ensures#1'
[ $rc -eq 0 ] && echo "engine selftest: 6 expectations ok"
exit $rc
