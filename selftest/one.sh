#!/bin/sh
# usage: selftest/one.sh mutants|benign <patch>   — one selftest patch in its own scratch worktree; prints one verdict line
export GOFLAGS=-mod=mod GOPROXY=off
cd /verif
kind=$1; p=$2
W=$(mktemp -d /tmp/verif-selftest.XXXXXX)
O=$(mktemp -d /tmp/verif-selftest-out.XXXXXX)
trap 'git -C /repo worktree remove --force "$W/repo" >/dev/null 2>&1; rm -rf "$W" "$O"' EXIT
ok=0
for try in 1 2 3; do git -C /repo worktree add --detach "$W/repo" HEAD >/dev/null 2>&1 && { ok=1; break; }; sleep 1; done
[ $ok -eq 1 ] || { echo "SELFTEST-ERROR $p cannot create worktree"; exit 1; }
# uncommitted contract files of /repo are part of the tree under test
(cd /repo && git ls-files -m -o --exclude-standard | grep contracts_verif.go | while read f; do mkdir -p "$W/repo/$(dirname $f)"; cp "$f" "$W/repo/$f"; done)
prop=$(basename "$p" | cut -d- -f1)
(cd "$W/repo" && git apply "/verif/$p") || { echo "SELFTEST-ERROR $p does not apply"; exit 1; }
if [ "$prop" = ALL ]; then
  # a benign patch spanning packages: every property whose packages it touches
  dirs=$(grep '^+++ b/' "$p" | sed 's|^+++ b/||' | xargs -n1 dirname | sort -u | tr '\n' ' ')
  props=$(python3 -c "
import json,sys
dirs=set(sys.argv[1].split()); p=json.load(open('/verif/props.json'))
print(' '.join(k for k,v in p.items() if any(('./'+d) in v['packages'] for d in dirs)))" "$dirs")
  rc=0; : > "$O/log"
  for pr in $props; do GOVC_REPO="$W/repo" GOVC_OUT="$O" bin/govc check -prop "$pr" -tier quick >> "$O/log" 2>&1 || rc=1; done
else
  GOVC_REPO="$W/repo" GOVC_OUT="$O" bin/govc check -prop "$prop" -tier quick > "$O/log" 2>&1; rc=$?
fi
hit=$(grep -c '^VIOLATION' "$O/log")
if [ $kind = mutants ]; then
  if [ $rc -eq 1 ] && [ "$hit" -gt 0 ]; then echo "ok   caught  $p  ($(grep '^  obligation' "$O/log" | head -1 | cut -c1-110))"; exit 0; fi
  echo "MISS        $p (exit $rc)"; tail -3 "$O/log"; exit 1
fi
if [ $rc -eq 0 ]; then echo "ok   quiet   $p"; exit 0; fi
echo "FALSE-ALARM $p (exit $rc)"; grep '^  obligation\|^VIOLATION\|TOOL' "$O/log" | head -5; exit 1
