#!/bin/sh
# re-runs the detection of every recorded seeded change (tools/tryseed.sh) and prints one line each; exit 1 on a miss
cd /verif
rc=0
run() { d=$1; p=$(basename $d | cut -d- -f1); out=$(tools/tryseed.sh $p /verif/$d/patch.diff 2>&1); if echo "$out" | grep -q "^VIOLATION"; then echo "ok   $d"; else out=$(tools/tryseed.sh $p /verif/$d/patch.diff 2>&1); if echo "$out" | grep -q "^VIOLATION"; then echo "ok   $d (2nd try)"; else echo "MISS $d"; fi; fi; }
n=0
for d in seeded/*/; do d=${d%/}; run $d & n=$((n+1)); if [ $((n%5)) -eq 0 ]; then wait; fi; done
wait
