#!/usr/bin/env python3
"""Regenerates /verif/MANIFEST.json from tools/claims.json (claimed properties) and
properties.jsonl (everything else goes to not_applicable with its reason)."""
import json, subprocess
claims = json.load(open('/verif/tools/claims.json'))
pconf = json.load(open('/verif/props.json'))
props = [json.loads(l) for l in open('/verif/properties.jsonl')]
hooks = subprocess.run(['git','-C','/repo','log','--format=%h %s'],capture_output=True,text=True).stdout.splitlines()
hook_commits = [l.split()[0] for l in hooks if l.split(' ',1)[1].startswith('verif hook')]
m = {
 "version": 1,
 "setup_cmd": "cd /verif/govc && GOFLAGS=-mod=mod GOPROXY=off go build -o /verif/bin/govc .",
 "hooks": {"guard": "verif", "enable": "-tags verif (comment-only files <pkg>/contracts_verif.go; the checks load /repo with this tag)",
           "baseline_off_cmd": "cd /repo && go test -vet=off -count=1 -timeout 25m ./...",
           "source_commits": hook_commits, "add_only": True},
 "engines": [{"name": "govc", "path": "/verif/govc", "serves_properties": sorted(claims['checks'].keys()),
   "kind_free_text": "contract-based deductive verifier for Go built here: contracts are //@ comments in /repo/<pkg>/contracts_verif.go (build tag verif); verification conditions are generated from go/ssa (NaiveForm) of /repo's working tree on every run (weakest-precondition style symbolic execution, loops cut at invariants, calls replaced by callee contracts) and discharged by z3 4.8.12 / z3 5.1.0 / cvc5 1.0"}],
 "checks": [], "notes": claims.get('notes',''), "not_applicable": []}
for p in props:
    pid = p['id']
    if pid in claims['checks']:
        c = claims['checks'][pid]
        tech = "contract-based deductive verification: contracts on the real functions, VCs generated over go/ssa, discharged by z3/cvc5"
        note = c['note']
        sis = pconf.get(pid, {}).get('bounded_standins') or []
        if sis:
            q = [s['name'] for s in sis if s.get('quick')]
            th = [s['name'] for s in sis]
            tech += "; plus bounded stand-ins on the real code for what sits inside dependencies or over histories (labelled bounded, never counted as proved; also used as the search for a failing input when an obligation fails): quick runs " + (', '.join(q) or 'none') + "; thorough runs " + ', '.join(th)
            note += " Bounded stand-ins: " + ' | '.join(f"{s['name']}: {s['bound']}" for s in sis)
        m['checks'].append({
          "property_id": pid, "quick_cmd": f"./check {pid} quick", "thorough_cmd": f"./check {pid} thorough",
          "evidence_file": f"/verif/evidence/{pid}.json", "replay_cmd_template": "./check --replay {path}",
          "engine": "govc", "technique": tech,
          "level_claimed": {"category": "proof", "text": c['text'], "design_ref": c.get('design_ref', f"DESIGN.md §9 {pid}")},
          "level_note": note})
    else:
        m['not_applicable'].append({"property_id": pid, "reason": claims['not_applicable'].get(pid, "not brought within the verifier's reach in the time available (no check claimed)")})
json.dump(m, open('/verif/MANIFEST.json','w'), indent=1)
print("checks:", [c['property_id'] for c in m['checks']], "n/a:", len(m['not_applicable']))
