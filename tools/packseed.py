#!/usr/bin/env python3
"""packseed.py <prop> <letter> <pkgdir> : copies a confirmed seeded change into /verif/seeded/<prop>-<letter>/ with meta.json,
recording what the current checks say about it."""
import sys, os, json, subprocess, shutil, re
prop, x, pkg = sys.argv[1:4]
src = f"/tmp/seed-out/{prop}/{x}"
dst = f"/verif/seeded/{prop}-{x}"
os.makedirs(dst, exist_ok=True)
shutil.copy(f"{src}/patch.diff", f"{dst}/patch.diff")
shutil.copy(f"{src}/demo_test.go", f"{dst}/demo_test.go")
notes = open(f"{src}/notes.txt").read()
conf = subprocess.run(["/verif/tools/confirmseed.sh", src, pkg], capture_output=True, text=True).stdout
det = subprocess.run(["/verif/tools/tryseed.sh", prop, f"{src}/patch.diff"], capture_output=True, text=True).stdout
obls = re.findall(r"obligation (.+?) failed:", det)
viol = [l for l in det.splitlines() if l.startswith("VIOLATION")]
meta = {"property": prop, "breaks": notes.strip(), "demonstration": "demo_test.go (copied into the package directory as zz_seed_demo_test.go)",
        "package": pkg,
        "confirmed_by": "tools/confirmseed.sh in a scratch worktree of /repo HEAD: " + " | ".join(l for l in conf.splitlines() if ":" in l and not l.startswith(" ") and not l.startswith("---")),
        "check": f"tools/tryseed.sh {prop} patch.diff (./check {prop} quick against a scratch worktree with the patch applied)",
        "detected": len(viol) > 0, "failed_obligations": obls,
        "failing_input_found": any("no-failing-input-found" not in v for v in viol)}
json.dump(meta, open(f"{dst}/meta.json", "w"), indent=1)
print(prop, x, "detected" if meta["detected"] else "MISSED", obls[:2])
