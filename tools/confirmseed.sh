#!/bin/sh
# usage: tools/confirmseed.sh <seed-dir> <pkgdir>   (seed-dir has patch.diff and demo_test.go)
# Confirms in a scratch worktree: demo passes without the patch; with the patch: builds, whole suite passes, demo fails.
export GOFLAGS=-mod=mod GOPROXY=off
D=$1; PKG=$2
W=$(mktemp -d /tmp/verif-confirm.XXXXXX)
trap 'git -C /repo worktree remove --force "$W/repo" >/dev/null 2>&1; rm -rf "$W"' EXIT
git -C /repo worktree add --detach "$W/repo" HEAD >/dev/null 2>&1 || exit 2
cd "$W/repo"
cp "$D/demo_test.go" "$PKG/zz_seed_demo_test.go"
if go test -count=1 -vet=off ./$PKG/ >"$W/base.log" 2>&1; then echo "demo-without-patch: PASS"; else echo "demo-without-patch: FAIL (bad seed)"; tail -5 "$W/base.log"; fi
rm "$PKG/zz_seed_demo_test.go"
git apply "$D/patch.diff" || { echo "patch does not apply"; exit 2; }
go build ./... >"$W/build.log" 2>&1 && echo "build-with-patch: OK" || { echo "build-with-patch: FAIL"; tail -5 "$W/build.log"; }
if go test -count=1 -vet=off -timeout 20m ./... >"$W/suite.log" 2>&1; then echo "suite-with-patch: PASS"; else echo "suite-with-patch: FAIL"; grep -E "^(FAIL|---)" "$W/suite.log" | head -5; fi
cp "$D/demo_test.go" "$PKG/zz_seed_demo_test.go"
if go test -count=1 -vet=off ./$PKG/ >"$W/demo.log" 2>&1; then echo "demo-with-patch: PASS (bad seed: not demonstrated)"; else echo "demo-with-patch: FAIL (as required)"; grep -E "^\s+zz_seed|panic:|---" "$W/demo.log" | head -4; fi
