#!/bin/sh
# runs every claimed check (quick) and prints one line each; exit 1 if any is not clean
cd /verif
rc=0
for p in $(python3 -c "import json;print(' '.join(c['property_id'] for c in json.load(open('MANIFEST.json'))['checks']))"); do
  out=$(./check $p ${1:-quick} 2>&1); e=$?
  echo "$out" | tail -1
  if [ $e -ne 0 ]; then rc=1; echo "$out" | grep "VIOLATION\|TOOL-ERROR\|obligation" | head -5; fi
done
exit $rc
