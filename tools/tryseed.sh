#!/bin/sh
# usage: tools/tryseed.sh <prop> <patch.diff> [tier]   — runs the property's check against a scratch worktree with the patch applied
export GOFLAGS=-mod=mod GOPROXY=off
W=$(mktemp -d /tmp/verif-seed.XXXXXX); O=$(mktemp -d /tmp/verif-seed-out.XXXXXX)
trap 'git -C /repo worktree remove --force "$W/repo" >/dev/null 2>&1; rm -rf "$W" "$O"' EXIT
git -C /repo worktree add --detach "$W/repo" HEAD >/dev/null 2>&1 || exit 2
(cd /repo && git ls-files -m -o --exclude-standard | grep contracts_verif.go | while read f; do mkdir -p "$W/repo/$(dirname $f)"; cp "$f" "$W/repo/$f"; done)
(cd "$W/repo" && git apply "$2") || { echo "patch does not apply"; exit 2; }
GOVC_REPO="$W/repo" GOVC_OUT="$O" /verif/bin/govc check -prop "$1" -tier "${3:-quick}" 2>&1 | grep -v "^KNOWN" | cut -c1-260
