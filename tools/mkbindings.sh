#!/bin/sh
# regenerates /verif/bindings.json (rename fallback, see govc/bindings.go) from /repo's current tree;
# refuses if any function under contract does not verify. Run after every contract change.
export GOFLAGS=-mod=mod GOPROXY=off
cd /verif
pk=$(python3 -c "
import json
p=json.load(open('/verif/props.json'))
s=[]
for v in p.values():
    for x in v['packages']:
        if x not in s: s.append(x)
print(','.join(s))")
bin/govc bindings -pkg "$pk"
