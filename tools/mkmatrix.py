#!/usr/bin/env python3
"""Regenerates the generated section of DESIGN.md (between the SEEDED-MATRIX markers) from seeded/*/meta.json and
selftest/mutants, selftest/benign."""
import json, glob, os, re
rows=[]
for d in sorted(glob.glob('/verif/seeded/*/')):
    m=json.load(open(d+'meta.json')); sid=os.path.basename(d.rstrip('/'))
    what=m['breaks'].replace('\n',' ')
    what=re.sub(r'^(Change|What the change is)\s*:\s*','',what)
    what=what.split('. ')[0][:170]
    obl=', '.join('`'+o.split('.',1)[-1]+'`' if False else '`'+o+'`' for o in m['failed_obligations'][:2]) or '(bind failure)'
    hist='yes' if m.get('history','').startswith('initially MISSED') else ''
    rows.append(f"| {sid} | {what} | {obl} | {hist} |")
muts=sorted(os.path.basename(f)[:-6] for f in glob.glob('/verif/selftest/mutants/*.patch'))
ben=sorted(os.path.basename(f)[:-6] for f in glob.glob('/verif/selftest/benign/*.patch'))
missed=[(os.path.basename(d.rstrip('/')), json.load(open(d+'meta.json')).get('history','')) for d in sorted(glob.glob('/verif/seeded/*/'))]
missed=[(a,b) for a,b in missed if b.startswith('initially MISSED')]
out=[]
out.append(f"{len(rows)} independently produced property-breaking changes (each compiles, passes the pinned suite, and comes with a demonstration that fails only with the change; `seeded/<id>/`). All are detected by the quick check of their property; {len(missed)} were missed by the first version of the contracts and led to the strengthening listed below the table. `tools/reseed.sh` re-runs all of them.\n")
out.append("| seed | change (first sentence of the author's note) | first failing obligation(s) | missed at first |")
out.append("|---|---|---|---|")
out+=rows
out.append("\nMissed at first, and what was strengthened:\n")
for a,b in missed:
    out.append(f"* {a}: {b[len('initially MISSED'):].lstrip(' ;(').rstrip()}")
out.append(f"\nMust-fail corpus run by `selftest/run.sh` ({len(muts)} patches; every `fix:` commit reverted, plus hand-made changes): " + ', '.join(muts) + '.')
out.append(f"\nMust-stay-quiet corpus ({len(ben)} behaviour-preserving refactors written by sub-agents that saw no contract: renamed locals and parameters, inverted branches, switch/if-chain, range/index loop rewrites, extracted and inlined helpers, reordered independent statements, changed logging): " + ', '.join(ben) + '.')
sec='\n'.join(out)
p='/verif/DESIGN.md'; s=open(p).read()
a='<!-- SEEDED-MATRIX:BEGIN -->'; b='<!-- SEEDED-MATRIX:END -->'
assert a in s and b in s
s=s[:s.index(a)+len(a)]+'\n'+sec+'\n'+s[s.index(b):]
open(p,'w').write(s)
# stand-ins
pc=json.load(open('/verif/props.json'))
srows=["| property | stand-in | tier | what is run (bound) |","|---|---|---|---|"]
for k in sorted(pc):
    for si in pc[k].get('bounded_standins') or []:
        srows.append(f"| {k} | `{si['name']}` (`replay/{si['file']}`) | {'quick + thorough' if si.get('quick') else 'thorough'} | {si['bound']} |")
s=open(p).read()
a='<!-- STANDINS:BEGIN -->'; b='<!-- STANDINS:END -->'
if a in s and b in s:
    s=s[:s.index(a)+len(a)]+'\n'+'\n'.join(srows)+'\n'+s[s.index(b):]
    open(p,'w').write(s)
print(len(rows),'seeds',len(muts),'mutants',len(ben),'benign',len(srows)-2,'stand-ins')
