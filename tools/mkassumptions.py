#!/usr/bin/env python3
"""Regenerates the ASSUMPTIONS section of DESIGN.md from the contract files in /repo and /verif/extern."""
import re,subprocess,glob
files=subprocess.run("cd /repo && git ls-files '*contracts_verif.go'",shell=True,capture_output=True,text=True).stdout.split()
rows=[]
for f in files:
    cur=None
    for ln in open('/repo/'+f):
        ln=ln.rstrip('\n')
        m=re.match(r'//@ (func|iface) (.+)$',ln)
        if m: cur=m.group(2); continue
        m=re.match(r'//@\s+(nobody)\s*$',ln)
        if m: rows.append((f.replace('/contracts_verif.go',''),cur,'body not verified (nobody)','contract used at call sites only; the function works on dependency data structures')); continue
        m=re.match(r'//@\s+(ensures-assumed|assumes|trusted)\s+(.*)$',ln)
        if m: rows.append((f.replace('/contracts_verif.go',''),cur,m.group(1),m.group(2))); continue
        m=re.match(r'//@\s+at (call|recv) (\S+?):\s*(after )?assume (.*)$',ln)
        if m: rows.append((f.replace('/contracts_verif.go',''),cur,f'assume at {m.group(1)} {m.group(2)}',m.group(4)))
        m=re.match(r'//@ axiom (\S+) \[[^]]*\]: (.*)$',ln)
        if m: rows.append((f.replace('/contracts_verif.go',''),'(file level)','axiom '+m.group(1),m.group(2)))
out=["| package | function | kind | text |","|---|---|---|---|"]
for r in rows:
    out.append("| %s | `%s` | %s | `%s` |"%(r[0],r[1],r[2],r[3].replace('|','\\|')[:200]))
n_ext=0
for f in glob.glob('/verif/extern/*.spec'):
    n_ext+=sum(1 for l in open(f) if l.startswith('//@ func ') or l.startswith('//@ iface '))
txt="\n".join(out)+f"\n\nPlus {n_ext} assumed contracts on dependency functions in `/verif/extern/*.spec` (all on code outside /repo; each check lists the ones it used), the machine-arithmetic notes (counters stepped by constants assumed not to wrap) and the aliasing convention of §3.2, all repeated in every evidence file. No function body in /repo is `trusted`; the three `nobody` rows above are frame-only contracts (`pure`, no postcondition) on selector helpers whose bodies work on ipld-prime nodes and are not verified - they are exercised by the bounded stand-in `c01-selectors`.\n"
p='/verif/DESIGN.md'
s=open(p).read()
a='<!-- ASSUMPTIONS-BEGIN -->'; b='<!-- ASSUMPTIONS-END -->'
if a in s:
    s=s[:s.index(a)+len(a)]+"\n"+txt+s[s.index(b):]
else:
    marker="### A.7 False alarms met while building"
    s=s.replace(marker,"### A.6c Assumptions left in the contracts on /repo code (generated: tools/mkassumptions.py)\n\nEvery clause below is NOT proved; it is used where stated and listed in the evidence of each property that uses it.\n\n"+a+"\n"+txt+b+"\n\n"+marker,1)
open(p,'w').write(s)
print(len(rows),"assumption clauses;",n_ext,"extern contracts")
