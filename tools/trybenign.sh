#!/bin/sh
# usage: tools/trybenign.sh <patch>  — applies a (supposedly behaviour-preserving) patch in a scratch worktree and runs the
# quick check of every property whose packages the patch touches; prints FALSE-ALARM lines or "quiet".
export GOFLAGS=-mod=mod GOPROXY=off
P=$(readlink -f "$1")
W=$(mktemp -d /tmp/verif-benign.XXXXXX); O=$(mktemp -d /tmp/verif-benign-out.XXXXXX)
trap 'git -C /repo worktree remove --force "$W/repo" >/dev/null 2>&1; rm -rf "$W" "$O"' EXIT
git -C /repo worktree add --detach "$W/repo" HEAD >/dev/null 2>&1 || exit 2
(cd "$W/repo" && git apply "$P") || { echo "patch does not apply: $P"; exit 2; }
dirs=$(grep '^+++ b/' "$P" | sed 's|^+++ b/||' | xargs -n1 dirname | sort -u)
props=$(python3 - "$dirs" <<'PY'
import json,sys
dirs=set(sys.argv[1].split())
p=json.load(open('/verif/props.json'))
print(' '.join(k for k,v in p.items() if any(('./'+d) in v['packages'] for d in dirs)))
PY
)
rc=0
for pr in $props; do
  GOVC_REPO="$W/repo" GOVC_OUT="$O" /verif/bin/govc check -prop $pr -tier quick > "$O/log" 2>&1; e=$?
  if [ $e -ne 0 ]; then rc=1; echo "FALSE-ALARM $(basename $P) $pr"; grep '^  obligation' "$O/log" | cut -c1-300 | head -4; fi
done
[ $rc -eq 0 ] && echo "quiet $(basename $P) [$props]"
exit $rc
