package main

// Replay of solver counterexamples on the real code (go test -overlay, nothing
// is written into /repo), and the bounded stand-in sweeps.

import (
	"bytes"
	"context"
	"encoding/json"
	"fmt"
	"go/types"
	"os"
	"os/exec"
	"path/filepath"
	"regexp"
	"strconv"
	"strings"
	"time"

	"golang.org/x/tools/go/ssa"
)

type ReplayOutcome struct {
	Ran       bool   `json:"ran"`
	Confirmed bool   `json:"confirmed"`
	Oracle    string `json:"oracle"`
	TestFile  string `json:"test_source,omitempty"`
	Pkg       string `json:"pkg,omitempty"`
	Output    string `json:"output,omitempty"`
	Why       string `json:"why_not,omitempty"`
}

type StandinOutcome struct {
	Passed  bool
	Cases   int
	Seconds float64
	Output  string
}

func goTestOverlay(pkgDir, testName, src, run string, timeout time.Duration) (string, error) {
	tmp, err := os.MkdirTemp("", "govc-replay-")
	if err != nil {
		return "", err
	}
	defer os.RemoveAll(tmp)
	tf := filepath.Join(tmp, "x_test.go")
	if err := os.WriteFile(tf, []byte(src), 0o644); err != nil {
		return "", err
	}
	ov := map[string]map[string]string{"Replace": {filepath.Join(repoDir, pkgDir, testName): tf}}
	ovb, _ := json.Marshal(ov)
	ovf := filepath.Join(tmp, "ov.json")
	os.WriteFile(ovf, ovb, 0o644)
	ctx, cancel := context.WithTimeout(context.Background(), timeout+30*time.Second)
	defer cancel()
	cmd := exec.CommandContext(ctx, "go", "test", "-overlay", ovf, "-vet=off", "-count=1", "-timeout", fmt.Sprintf("%ds", int(timeout.Seconds())), "-run", run, "-v", "./"+pkgDir)
	cmd.Dir = repoDir
	cmd.Env = append(os.Environ(), "GOFLAGS=-mod=mod", "GOPROXY=off")
	var out bytes.Buffer
	cmd.Stdout = &out
	cmd.Stderr = &out
	err = cmd.Run()
	return out.String(), err
}

var casesRe = regexp.MustCompile(`CASES (\d+)`)

func runStandin(sd Standin, seed int) StandinOutcome {
	start := time.Now()
	src, err := os.ReadFile(filepath.Join(verifDir, "replay", sd.File))
	if err != nil {
		return StandinOutcome{Passed: false, Output: "stand-in source missing: " + err.Error()}
	}
	os.Setenv("VERIF_SEED", strconv.Itoa(seed))
	out, err := goTestOverlay(sd.Pkg, "zz_verif_standin_test.go", string(src), sd.Run, 300*time.Second)
	res := StandinOutcome{Passed: err == nil, Seconds: time.Since(start).Seconds(), Output: truncate(out, 8000)}
	for _, m := range casesRe.FindAllStringSubmatch(out, -1) {
		n, _ := strconv.Atoi(m[1])
		res.Cases += n
	}
	return res
}

// tryReplay attempts to confirm a failed obligation on the real code.
func tryReplay(e *Engine, rep *FuncReport, r *OblResult, rf *ReplayFile) {
	out := &ReplayOutcome{}
	rf.Replay = out
	safety := map[string]bool{"index": true, "slice": true, "makeslice": true, "nil": true, "nilmap": true, "typeassert": true, "div": true, "pre": true, "panic": true, "close": true, "send": true, "allocbound": true}
	fn := e.findFunc(repoMod+"/"+rep.Pkg, rep.Key)
	if rep.Pkg == "" {
		fn = e.findFunc(repoMod, rep.Key)
	}
	if r.Verdict == "failed" && safety[r.Kind] && fn != nil && r.Model != nil {
		src, why := genPanicTest(fn, r.Model)
		if src == "" {
			out.Why = why
		} else {
			out.Ran = true
			out.Oracle = "the call panics (or exceeds the allocation guard) on the model's input"
			out.TestFile = src
			out.Pkg = rep.Pkg
			o, _ := goTestOverlay(rep.Pkg, "zz_verif_replay_test.go", src, "TestVerifReplay", 60*time.Second)
			out.Output = truncate(o, 4000)
			if strings.Contains(o, "REPLAY-PANIC") {
				out.Confirmed = true
				rf.FailingInputFound = true
				return
			}
		}
	} else if out.Why == "" {
		out.Why = "no generic oracle for obligation kind " + r.Kind + " (or no model); falling back to the property's bounded sweeps"
	}
	// bounded sweeps of the property, seeded by nothing more than their own enumeration
	props := loadProps()
	if pc := props[rf.Property]; pc != nil {
		for _, sd := range pc.Standins {
			so := runStandin(sd, 0)
			if !so.Passed {
				out.Ran = true
				out.Confirmed = true
				out.Oracle = "bounded sweep " + sd.Name + " (" + sd.Bound + ") fails on the real code"
				out.Output = so.Output
				rf.FailingInputFound = true
				return
			}
		}
	}
}

// genPanicTest builds an in-package test calling fn with inputs shaped by the model.
func genPanicTest(fn *ssa.Function, model map[string]string) (string, string) {
	if fn.Parent() != nil {
		return "", "anonymous function"
	}
	pkg := fn.Pkg.Pkg
	var b strings.Builder
	imports := map[string]string{}
	b.WriteString("func TestVerifReplay(t *testing.T) {\n\tdefer func() {\n\t\tif r := recover(); r != nil {\n\t\t\tfmt.Println(\"REPLAY-PANIC:\", r)\n\t\t\tt.Fatalf(\"panic: %v\", r)\n\t\t}\n\t}()\n")
	qual := func(p *types.Package) string {
		if p == pkg {
			return ""
		}
		alias := "vr_" + strings.NewReplacer("-", "_", ".", "_").Replace(p.Name())
		imports[p.Path()] = alias
		return alias
	}
	var args []string
	for i, p := range fn.Params {
		name := fmt.Sprintf("a%d", i)
		expr, why := mkArg(p.Type(), "in!"+p.Name(), model, qual)
		if expr == "" {
			return "", "parameter " + p.Name() + ": " + why
		}
		fmt.Fprintf(&b, "\t%s := %s\n", name, expr)
		args = append(args, name)
	}
	call := ""
	if fn.Signature.Recv() != nil {
		call = fmt.Sprintf("%s.%s(%s)", args[0], fn.Name(), strings.Join(args[1:], ", "))
	} else {
		call = fmt.Sprintf("%s(%s)", fn.Name(), strings.Join(args, ", "))
	}
	if fn.Signature.Variadic() {
		call = strings.TrimSuffix(call, ")") + "...)"
	}
	fmt.Fprintf(&b, "\t%s\n}\n", call)
	var hdr strings.Builder
	fmt.Fprintf(&hdr, "package %s\n\nimport (\n\t\"fmt\"\n\t\"testing\"\n", pkg.Name())
	for path, alias := range imports {
		fmt.Fprintf(&hdr, "\t%s %q\n", alias, path)
	}
	hdr.WriteString(")\n\n")
	return hdr.String() + b.String(), ""
}

func modelInt(model map[string]string, key string) (int64, bool) {
	v, ok := model[key]
	if !ok {
		return 0, false
	}
	n, err := strconv.ParseInt(v, 10, 64)
	if err != nil {
		return 0, false
	}
	return n, true
}

func mkArg(t types.Type, key string, model map[string]string, qual types.Qualifier) (string, string) {
	ts := types.TypeString(t, qual)
	switch u := t.Underlying().(type) {
	case *types.Basic:
		switch {
		case u.Info()&types.IsInteger != 0:
			n, _ := modelInt(model, key)
			return fmt.Sprintf("%s(%d)", ts, n), ""
		case u.Info()&types.IsBoolean != 0:
			return fmt.Sprintf("%s(%s)", ts, orDefault(model[key], "false")), ""
		case u.Info()&types.IsString != 0:
			return fmt.Sprintf("%s(\"\")", ts), ""
		}
	case *types.Slice:
		if _, ok := u.Elem().Underlying().(*types.Basic); !ok {
			if _, ok2 := u.Elem().Underlying().(*types.Slice); !ok2 {
				return "", "slice of composite elements"
			}
		}
		ln, _ := modelInt(model, key+".len")
		cp, _ := modelInt(model, key+".cap")
		arr, _ := modelInt(model, key+".arr")
		if ln > 1<<20 || cp > 1<<20 {
			return "", "model slice too large to materialise"
		}
		if cp < ln {
			cp = ln
		}
		if arr == 0 && ln == 0 && cp == 0 {
			return fmt.Sprintf("%s(nil)", ts), ""
		}
		return fmt.Sprintf("make(%s, %d, %d)", ts, ln, cp), ""
	case *types.Pointer:
		if n, ok := modelInt(model, key); ok && n == 0 {
			return fmt.Sprintf("(%s)(nil)", ts), ""
		}
		if _, ok := u.Elem().Underlying().(*types.Struct); ok {
			return fmt.Sprintf("new(%s)", types.TypeString(u.Elem(), qual)), ""
		}
	case *types.Struct:
		return fmt.Sprintf("%s{}", ts), ""
	case *types.Interface:
		return "", "interface parameter"
	}
	return "", "unsupported parameter type " + ts
}

func orDefault(s, d string) string {
	if s == "" {
		return d
	}
	return s
}

// cmdReplay re-runs a stored replay file: the stored test (if any) through the overlay.
func cmdReplay(args []string) {
	if len(args) < 1 {
		fmt.Fprintln(os.Stderr, "usage: govc replay <file>")
		os.Exit(2)
	}
	data, err := os.ReadFile(args[0])
	if err != nil {
		fmt.Fprintln(os.Stderr, err)
		os.Exit(2)
	}
	// a failed bounded stand-in: its replay file names the stand-in; re-run it on the current tree
	var sf struct {
		Property string   `json:"property"`
		Standin  *Standin `json:"standin"`
		Output   string   `json:"output"`
	}
	if err := json.Unmarshal(data, &sf); err == nil && sf.Standin != nil && sf.Standin.File != "" {
		fmt.Printf("bounded stand-in %s (%s): %s\nrecorded failure:\n%s\n--- re-running on the current tree ---\n", sf.Standin.Name, sf.Standin.File, sf.Standin.Bound, truncate(sf.Output, 3000))
		out := runStandin(*sf.Standin, 1)
		fmt.Println(truncate(out.Output, 4000))
		if !out.Passed {
			fmt.Printf("VIOLATION property=%s replay=%s\n", sf.Property, args[0])
			os.Exit(1)
		}
		fmt.Println("the stand-in passes on the current tree")
		return
	}
	var rf ReplayFile
	if err := json.Unmarshal(data, &rf); err != nil {
		fmt.Fprintln(os.Stderr, err)
		os.Exit(2)
	}
	fmt.Printf("obligation: %s\n  %s (%s)\n  solver verdict: %s\n", rf.Obligation, rf.Desc, rf.Pos, rf.Verdict)
	if rf.Replay != nil && rf.Replay.TestFile != "" {
		o, _ := goTestOverlay(rf.Replay.Pkg, "zz_verif_replay_test.go", rf.Replay.TestFile, "TestVerifReplay", 60*time.Second)
		fmt.Println(o)
		if strings.Contains(o, "REPLAY-PANIC") {
			fmt.Printf("VIOLATION property=%s replay=%s\n", rf.Property, args[0])
			os.Exit(1)
		}
		fmt.Println("the stored input no longer fails on the current tree")
		return
	}
	fmt.Println("no executable input is stored for this obligation (no-failing-input-found); solver output:")
	fmt.Println(rf.SolverOut)
}
