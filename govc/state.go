package main

import (
	"fmt"
	"go/token"
	"go/types"
	"regexp"
	"sort"
	"strconv"
	"strings"
	"sync"

	"golang.org/x/tools/go/ssa"
)

// Obligation is one verification condition: script (path condition) => goal.
type Obligation struct {
	Name     string
	Kind     string
	Func     string
	Pos      string
	Desc     string
	Decls    int      // number of ctx decls visible
	Asserts  []string // path condition
	Goal     Term
	Cover    bool // cover obligation: must be SAT (reachability / vacuity guard)
	PathID   int
	Inputs   []string // names of model constants of interest (in!...)
	Property string
}

type Event struct {
	Name      string
	Args      []Term
	Pos       token.Pos
	Uncertain bool // recorded after a loop cut: counts are lower bounds only
}

type deferred struct {
	call  *ssa.CallCommon
	fnVal Val
	args  []Val
	instr ssa.Instruction
}

type Frame struct {
	fn       *ssa.Function
	regs     map[ssa.Value]Val
	defers   []deferred
	parent   *Frame
	site     ssa.Instruction // the call instruction (in parent.fn) this frame was inlined at
	depth    int
	params   []Val // entry values of parameters
	contract *Contract
	active   map[*ssa.BasicBlock]bool // loop headers currently cut
	visits   map[*ssa.BasicBlock]int
}

type State struct {
	ctx        *Ctx
	fr         *Frame
	cells      map[int]*Cell
	heap       map[string]Term
	tainted    map[string]bool            // heap component was havocked (entry-bound facts no longer apply)
	loopEvents map[string]bool            // events some loop cut on this path may produce any number of times
	loopEvBy   map[string]map[string]bool // the same per loop marker ("loop*k")
	pc         []string
	ghost      map[string]Val
	trace      []Event
	dry        *dryInfo // non-nil during a loop dry run (collect modified heap keys)
	entry      *State   // snapshot at function entry (for old())
	pathID     int
	dead       bool
	lastReturn ssa.Instruction
	blocking   []string
	selects    [][]string
	hookResult *Val
	curInstr   ssa.Instruction
	lastPos    string
	frontier   Term // allocation frontier: every object existing now is <= frontier + frontN
	frontN     int
	pending    map[string]Term     // components havocked before their first use (value: frontier at the time)
	baseVer    map[string]baseInfo // last havocked version of a heap component and the frontier bounding its references
	callFresh  []Term
	locks      []lockTouch
}

type baseInfo struct {
	ver   Term
	bound Term
}

// Cell is a non-escaping local variable.
type Cell struct {
	T types.Type
	L []Term
	P map[int]*PtrInfo // pointer structure of single-leaf pointer values, by leaf offset
	C map[int]*Closure // statically known function values, by leaf offset
}

func (c *Cell) clone() *Cell {
	n := &Cell{T: c.T, L: append([]Term(nil), c.L...)}
	if len(c.P) > 0 {
		n.P = map[int]*PtrInfo{}
		for k, v := range c.P {
			n.P[k] = v
		}
	}
	if len(c.C) > 0 {
		n.C = map[int]*Closure{}
		for k, v := range c.C {
			n.C[k] = v
		}
	}
	return n
}

type dryInfo struct {
	keys map[string]bool
	loop *loopInfo
	fr   *ssa.Function
	// finer than keys: for a component written only by stores to single rows (one object's field, one
	// map's entries, one array's elements), the objects written; whole[key] when some write was not of
	// that form. start is the fresh-name counter when the dry run began.
	rows  map[string][]Term
	whole map[string]bool
	sorts map[string]string
	// ghosts assigned by hooks that fired during the dry run (whatever key matched, also inside inlined helpers)
	ghosts map[string]bool
	// event names produced during the dry run (whoever produced them: the body or an inlined helper)
	events map[string]bool
	start  int
}

// Ctx is the per-function verification context.
type Ctx struct {
	eng        *Engine
	hooksFired map[string]bool // every `at call` hook key that matched a call on any path
	eventsSeen map[string]bool // every event name produced on any path (vacuity guard for event literals in contracts)
	fn         *ssa.Function
	contract   *Contract
	decls      []string
	declSet    map[string]bool
	fresh      int
	allocN     int
	cellN      int
	obls       []*Obligation
	paths      int
	endStates  int
	strLits    map[string]int64
	notes      []string // assumptions used (opaque calls, extern contracts, ...)
	noteSet    map[string]bool
	oblNames   map[ssa.Instruction]map[string]string
	retCount   int
	maxPaths   int
	pathSeq    int
	forkHist   map[string]int
	loopCovers map[int][]*Obligation
	axioms     []axiomText
	frame      []frameLoc
	frameDone  bool
	frameErr   []string
	closureN   int
	closures   map[string]*Closure // by id term
	loopHdrs   map[*ssa.BasicBlock]*loopInfo
}

type loopInfo struct {
	header  *ssa.BasicBlock
	body    map[*ssa.BasicBlock]bool
	ordinal int
	allocs  []*ssa.Alloc // allocs defined outside the loop and stored inside
}

var noteMu sync.Mutex

func (c *Ctx) noteLocked(format string, a ...any) {
	noteMu.Lock()
	defer noteMu.Unlock()
	c.note(format, a...)
}

func (c *Ctx) note(format string, a ...any) {
	s := fmt.Sprintf(format, a...)
	if !c.noteSet[s] {
		c.noteSet[s] = true
		c.notes = append(c.notes, s)
	}
}

func sym(name string) string {
	ok := true
	for _, r := range name {
		if !(r >= 'a' && r <= 'z' || r >= 'A' && r <= 'Z' || r >= '0' && r <= '9' || strings.ContainsRune("_.!$@%^&*<>=/+-~?", r)) {
			ok = false
			break
		}
	}
	if ok && len(name) > 0 && !(name[0] >= '0' && name[0] <= '9') {
		return name
	}
	return "|" + strings.NewReplacer("|", "!", "\\", "!").Replace(name) + "|"
}

func (c *Ctx) declare(name, sort string) Term {
	s := sym(name)
	if !c.declSet[s] {
		c.declSet[s] = true
		c.decls = append(c.decls, fmt.Sprintf("(declare-const %s %s)", s, sort))
	}
	return Term{s, sort}
}

func (c *Ctx) declareFun(name string, args []string, ret string) string {
	s := sym(name)
	if !c.declSet[s] {
		c.declSet[s] = true
		c.decls = append(c.decls, fmt.Sprintf("(declare-fun %s (%s) %s)", s, strings.Join(args, " "), ret))
	}
	return s
}

func (c *Ctx) freshName(prefix string) string {
	c.fresh++
	return fmt.Sprintf("%s!%d", prefix, c.fresh)
}

func (c *Ctx) freshConst(prefix, sort string) Term {
	return c.declare(c.freshName(prefix), sort)
}

func (st *State) clone() *State {
	n := *st
	n.cells = make(map[int]*Cell, len(st.cells))
	for k, v := range st.cells {
		n.cells[k] = v.clone()
	}
	n.heap = make(map[string]Term, len(st.heap))
	for k, v := range st.heap {
		n.heap[k] = v
	}
	n.tainted = make(map[string]bool, len(st.tainted))
	for k, v := range st.tainted {
		n.tainted[k] = v
	}
	n.loopEvents = make(map[string]bool, len(st.loopEvents))
	for k, v := range st.loopEvents {
		n.loopEvents[k] = v
	}
	n.loopEvBy = make(map[string]map[string]bool, len(st.loopEvBy))
	for k, v := range st.loopEvBy {
		n.loopEvBy[k] = v
	}
	n.pc = st.pc[:len(st.pc):len(st.pc)]
	n.trace = st.trace[:len(st.trace):len(st.trace)]
	n.pending = make(map[string]Term, len(st.pending))
	for k, v := range st.pending {
		n.pending[k] = v
	}
	n.baseVer = make(map[string]baseInfo, len(st.baseVer))
	for k, v := range st.baseVer {
		n.baseVer[k] = v
	}
	n.ghost = make(map[string]Val, len(st.ghost))
	for k, v := range st.ghost {
		n.ghost[k] = v
	}
	n.fr = st.fr.clone()
	return &n
}

func (f *Frame) clone() *Frame {
	if f == nil {
		return nil
	}
	n := *f
	n.regs = make(map[ssa.Value]Val, len(f.regs))
	for k, v := range f.regs {
		n.regs[k] = v
	}
	n.defers = append([]deferred(nil), f.defers...)
	n.active = make(map[*ssa.BasicBlock]bool, len(f.active))
	for k, v := range f.active {
		n.active[k] = v
	}
	n.visits = make(map[*ssa.BasicBlock]int, len(f.visits))
	for k, v := range f.visits {
		n.visits[k] = v
	}
	n.parent = f.parent.clone()
	return &n
}

func (st *State) assume(t Term) {
	if t.IsTrue() {
		return
	}
	if t.IsFalse() {
		st.dead = true
	}
	st.pc = append(st.pc, t.S)
}

// ---------------------------------------------------------------------------
// heap access

func heapKey(root types.Type, leafPath string) string {
	return "H#" + typeKey(root) + "#" + leafPath
}
func elemKey(elem types.Type, leafPath string) string {
	return "E#" + typeKey(elem) + "#" + leafPath
}

func (st *State) heapTerm(key, elemSort string, twoLevel bool) Term {
	if t, ok := st.heap[key]; ok {
		return t
	}
	sort := arrSort(elemSort)
	if twoLevel {
		sort = arrSort(arrSort(elemSort))
	}
	t := st.ctx.declare(key+"@0", sort)
	if st.entry != nil && st.entry != st {
		if _, ok := st.entry.heap[key]; !ok {
			st.entry.heap[key] = t
		}
	}
	if bound, pend := st.pending[key]; pend {
		// the component was havocked (by a call or a loop) before its first use on this path
		nv := st.ctx.freshConst(key+"@h", sort)
		st.heap[key] = nv
		st.baseVer[key] = baseInfo{ver: nv, bound: bound}
		delete(st.pending, key)
		return nv
	}
	st.heap[key] = t
	return t
}

func (st *State) setHeap(key string, val Term) {
	// bind a fresh name to keep terms small
	name := st.ctx.freshConst(key+"@", val.Sort)
	st.assume(Eq(name, val))
	st.heap[key] = name
	if st.dry != nil {
		st.dry.keys[key] = true
		st.dry.whole[key] = true
	}
}

// setHeapRow is setHeap for a value of the form Store(h, ref, row): only the row of object ref changes.
func (st *State) setHeapRow(key string, ref Term, val Term) {
	name := st.ctx.freshConst(key+"@", val.Sort)
	st.assume(Eq(name, val))
	st.heap[key] = name
	if st.dry != nil {
		st.dry.keys[key] = true
		st.dry.rows[key] = append(st.dry.rows[key], ref)
		st.dry.sorts[key] = val.Sort
	}
}

var reFreshNum = regexp.MustCompile(`!(\d+)`)

// loopInvariantRef: the reference is the same in every iteration - it mentions no heap component
// (no select at all), no value made up during the dry run and nothing created after the loop was entered.
func loopInvariantRef(ref Term, start int) bool {
	if strings.Contains(ref.S, "select") || strings.Contains(ref.S, "dry!") || strings.Contains(ref.S, "ite") {
		return false
	}
	for _, m := range reFreshNum.FindAllStringSubmatch(ref.S, -1) {
		n, _ := strconv.Atoi(m[1])
		if n > start {
			return false
		}
	}
	return true
}

// havocRows: after a loop whose body writes component key only in the rows of the given objects (the same
// objects in every iteration), those rows are arbitrary and every other object's row is unchanged.
func (st *State) havocRows(key string, refs []Term, sort string) {
	cur, ok := st.heap[key]
	if !ok && strings.HasPrefix(sort, "(Array Int ") {
		// not read or written yet on this path: its entry version is the one the loop starts from
		inner := strings.TrimSuffix(strings.TrimPrefix(sort, "(Array Int "), ")")
		if strings.HasPrefix(inner, "(Array Int ") {
			cur = st.heapTerm(key, strings.TrimSuffix(strings.TrimPrefix(inner, "(Array Int "), ")"), true)
		} else {
			cur = st.heapTerm(key, inner, false)
		}
		ok = cur.Sort == sort
	}
	if !ok || !strings.HasPrefix(cur.Sort, "(Array Int ") {
		st.havocKey(key)
		return
	}
	rowSort := strings.TrimSuffix(strings.TrimPrefix(cur.Sort, "(Array Int "), ")")
	val := cur
	seen := map[string]bool{}
	for _, r := range refs {
		if seen[r.S] {
			continue
		}
		seen[r.S] = true
		val = Store(val, r, st.ctx.freshConst("hv!row", rowSort))
	}
	nv := st.ctx.freshConst(key+"@h", cur.Sort)
	st.assume(Eq(nv, val))
	st.heap[key] = nv
	st.tainted[key] = true
	st.baseVer[key] = baseInfo{ver: nv, bound: st.frontierTerm()}
}

func (st *State) havocKey(key string) {
	cur, ok := st.heap[key]
	if !ok {
		// not used yet on this path: remember that its first use must not see the entry version
		st.pending[key] = st.frontierTerm()
		st.tainted[key] = true
		return
	}
	nv := st.ctx.freshConst(key+"@h", cur.Sort)
	st.heap[key] = nv
	st.tainted[key] = true
	st.baseVer[key] = baseInfo{ver: nv, bound: st.frontierTerm()}
}

func (st *State) frontierTerm() Term {
	if st.frontier.S == "" {
		return Term{"A0", SInt}
	}
	return st.frontier
}

// bumpFrontier introduces a new allocation frontier: everything that exists
// now (including objects a callee or earlier loop iterations allocated) is
// below it, everything allocated from now on is above it.
func (st *State) bumpFrontier() (oldF Term, oldN int) {
	oldF, oldN = st.frontierTerm(), st.frontN
	nf := st.ctx.freshConst("B", SInt)
	st.assume(Ge(nf, Add(oldF, I(int64(oldN)))))
	st.frontier = nf
	st.frontN = 0
	return
}

// leaves addressed by a pointer
func (st *State) ptrLeaves(p *PtrInfo) (root types.Type, off, n int, t types.Type) {
	off, n, t = pathRange(p.Root, p.Path)
	return p.Root, off, n, t
}

func (st *State) loadPtr(p *PtrInfo) Val {
	root, off, n, t := st.ptrLeaves(p)
	v := Val{T: t, L: make([]Term, n)}
	switch p.Kind {
	case pkCell:
		c, ok := st.cells[p.Cell]
		if !ok {
			unsup("load from dead cell %d", p.Cell)
		}
		copy(v.L, c.L[off:off+n])
		if n == 1 {
			if pi, ok := c.P[off]; ok {
				v.P = pi
			}
			if cl, ok := c.C[off]; ok {
				v.C = cl
			}
		}
	case pkHeap:
		ls := leavesOf(root)
		for i := 0; i < n; i++ {
			l := ls[off+i]
			h := st.heapTerm(heapKey(root, l.Path), l.Sort, false)
			v.L[i] = Select(h, p.Ref)
		}
	case pkElem:
		ls := leavesOf(root)
		for i := 0; i < n; i++ {
			l := ls[off+i]
			h := st.heapTerm(elemKey(root, l.Path), l.Sort, true)
			v.L[i] = Select(Select(h, p.Ref), p.Idx)
		}
	}
	st.decorate(&v)
	if p.Kind != pkCell {
		st.addFacts(v)
		for _, f := range st.oldRefFacts(p, root, off, n) {
			st.assumeOnce(f)
		}
	}
	return v
}

// oldRefFacts: every reference stored in the heap at function entry denotes an
// object that existed at entry (<= A0). Stated on the entry version of the
// component, so it stays true whatever is stored later.
func (st *State) oldRefFacts(p *PtrInfo, root types.Type, off, n int) []Term {
	if p.Kind == pkCell {
		return nil
	}
	ent := st.entry
	if ent == nil {
		ent = st
	}
	var out []Term
	ls := leavesOf(root)
	a0 := Term{"A0", SInt}
	for i := 0; i < n; i++ {
		l := ls[off+i]
		if l.Role != "ref" && l.Role != "arr" {
			continue
		}
		var key string
		if p.Kind == pkHeap {
			key = heapKey(root, l.Path)
		} else {
			key = elemKey(root, l.Path)
		}
		h0, ok := ent.heap[key]
		bound := a0
		if bi, hav := st.baseVer[key]; hav {
			h0, bound, ok = bi.ver, bi.bound, true
		}
		if !ok {
			continue
		}
		if p.Kind == pkHeap {
			out = append(out, Le(Select(h0, p.Ref), bound))
		} else {
			out = append(out, Le(Select(Select(h0, p.Ref), p.Idx), bound))
		}
	}
	return out
}

// decorate attaches pointer info to freshly loaded pointer values.
func (st *State) decorate(v *Val) {
	if v.P != nil || v.T == nil {
		return
	}
	if pt, ok := v.T.Underlying().(*types.Pointer); ok && len(v.L) == 1 {
		v.P = &PtrInfo{Kind: pkHeap, Root: pt.Elem(), Ref: v.L[0]}
	}
	if _, ok := v.T.Underlying().(*types.Signature); ok && len(v.L) == 1 && v.C == nil {
		if cl, ok := st.ctx.closures[v.L[0].S]; ok {
			v.C = cl
		}
	}
}

func (st *State) storePtr(p *PtrInfo, v Val) {
	root, off, n, _ := st.ptrLeaves(p)
	if len(v.L) != n {
		unsup("store: leaf count mismatch %d vs %d (%v into %v)", len(v.L), n, v.T, root)
	}
	if v.P != nil && (v.P.Kind != pkHeap || len(v.P.Path) > 0) && p.Kind != pkCell {
		c := st.ctx.contract
		if c == nil || c.OpaqueInterior == "" || v.P.Kind != pkHeap {
			unsup("interior or local pointer escapes to the heap")
		}
		// opt-in: the address of a field is stored as an opaque handle (an uninterpreted function of the
		// object, distinct from every allocated object); module code must not read or write the pointee
		// through the stored copy - listed as an assumption
		name := "fieldaddr#" + typeKey(v.P.Root)
		for _, i := range v.P.Path {
			name += fmt.Sprintf(".%d", i)
		}
		f := st.ctx.declareFun(name, []string{SInt}, SInt)
		h := Term{fmt.Sprintf("(%s %s)", f, v.P.Ref.S), SInt}
		st.assume(Lt(h, I(-(1 << 41))))
		st.ctx.note("ASSUMED in %s: the address of a field stored into the heap is an opaque handle (%s)", c.Key, c.OpaqueInterior)
		v = Val{T: v.T, L: []Term{h}}
	}
	switch p.Kind {
	case pkCell:
		c, ok := st.cells[p.Cell]
		if !ok {
			unsup("store to dead cell")
		}
		copy(c.L[off:off+n], v.L)
		for i := off; i < off+n; i++ {
			delete(c.P, i)
			delete(c.C, i)
		}
		if n == 1 && v.C != nil {
			if c.C == nil {
				c.C = map[int]*Closure{}
			}
			c.C[off] = v.C
		}
		if n == 1 && v.P != nil {
			if c.P == nil {
				c.P = map[int]*PtrInfo{}
			}
			c.P[off] = v.P
		}
	case pkHeap:
		ls := leavesOf(root)
		for i := 0; i < n; i++ {
			l := ls[off+i]
			key := heapKey(root, l.Path)
			h := st.heapTerm(key, l.Sort, false)
			st.setHeapRow(key, p.Ref, Store(h, p.Ref, v.L[i]))
		}
	case pkElem:
		ls := leavesOf(root)
		for i := 0; i < n; i++ {
			l := ls[off+i]
			key := elemKey(root, l.Path)
			h := st.heapTerm(key, l.Sort, true)
			st.setHeapRow(key, p.Ref, Store(h, p.Ref, Store(Select(h, p.Ref), p.Idx, v.L[i])))
		}
	}
}

// addFacts assumes the type invariants of a value that enters from outside
// (parameters, heap loads, havocked values, opaque results).
func (st *State) addFacts(v Val) {
	for _, f := range st.factsOf(v) {
		st.assume(f)
	}
}

func (st *State) factsOf(v Val) []Term {
	var out []Term
	if v.T == nil {
		return nil
	}
	if v.Tup != nil {
		for _, e := range v.Tup {
			out = append(out, st.factsOf(e)...)
		}
		return out
	}
	ls := leavesOf(v.T)
	if len(ls) != len(v.L) {
		return nil
	}
	for i, l := range ls {
		x := v.L[i]
		if _, lit := x.IntLit(); lit {
			continue
		}
		switch l.Role {
		case "":
			if lo, hi, ok := intRange(l.T); ok {
				out = append(out, And(Le(IBig(lo), x), Le(x, IBig(hi))))
			}
		case "off":
			out = append(out, Le(I(0), x))
		case "len":
			out = append(out, And(Le(I(0), x), Le(x, v.L[i+1])))
		case "cap":
			// an existing object occupies at most 2^46 bytes (a quarter of what the allocator can address)
			out = append(out, Le(x, I(maxElems(v.T, l.Path)/4)))
		case "ityp":
			out = append(out, Le(I(0), x))
		case "count", "readers":
			out = append(out, Le(I(0), x))
		}
	}
	return out
}

var stdSizes = types.SizesFor("gc", "amd64")

const maxAlloc = 1 << 48 // runtime.maxAlloc on linux/amd64

// maxElems bounds the capacity of a slice by what the allocator can provide.
func maxElems(t types.Type, capPath string) int64 {
	// find the slice type whose cap leaf this is
	var find func(t types.Type, path string) types.Type
	find = func(t types.Type, path string) types.Type {
		if path == "cap" {
			return t
		}
		st, ok := t.Underlying().(*types.Struct)
		if !ok {
			return nil
		}
		for i := 0; i < st.NumFields(); i++ {
			f := st.Field(i)
			if strings.HasPrefix(path, f.Name()+".") {
				return find(f.Type(), path[len(f.Name())+1:])
			}
		}
		return nil
	}
	st := find(t, capPath)
	if st == nil {
		return maxAlloc
	}
	return maxElemsOf(st)
}

func maxElemsOf(sliceT types.Type) (n int64) {
	defer func() {
		if recover() != nil {
			n = maxAlloc
		}
	}()
	sl, ok := sliceT.Underlying().(*types.Slice)
	if !ok {
		return maxAlloc
	}
	sz := stdSizes.Sizeof(sl.Elem())
	if sz <= 0 {
		return 1 << 62
	}
	return maxAlloc / sz
}

// freshVal creates an unconstrained value of type t (with type invariants).
func (st *State) freshVal(t types.Type, prefix string) Val {
	if tup, ok := t.(*types.Tuple); ok {
		v := Val{T: t}
		for i := 0; i < tup.Len(); i++ {
			v.Tup = append(v.Tup, st.freshVal(tup.At(i).Type(), fmt.Sprintf("%s.%d", prefix, i)))
		}
		return v
	}
	ls := leavesOf(t)
	v := Val{T: t, L: make([]Term, len(ls))}
	for i, l := range ls {
		n := prefix
		if l.Path != "" {
			n += "." + l.Path
		}
		v.L[i] = st.ctx.declare(n, l.Sort)
	}
	st.decorate(&v)
	st.addFacts(v)
	return v
}

func (st *State) newRef() Term {
	st.ctx.allocN++
	st.frontN++
	return Add(st.frontierTerm(), I(int64(st.frontN)))
}

func (st *State) newCell(t types.Type) int {
	st.ctx.cellN++
	id := st.ctx.cellN
	z := zeroVal(t)
	st.cells[id] = &Cell{T: t, L: z.L}
	return id
}

// sorted heap keys, for deterministic output
func sortedKeys(m map[string]Term) []string {
	var ks []string
	for k := range m {
		ks = append(ks, k)
	}
	sort.Strings(ks)
	return ks
}
