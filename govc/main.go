package main

import (
	"flag"
	"fmt"
	"os"
	"sort"
	"strings"

	"golang.org/x/tools/go/ssa"
)

func main() {
	if len(os.Args) < 2 {
		fmt.Fprintln(os.Stderr, "usage: govc verify|check|dump ...")
		os.Exit(2)
	}
	switch os.Args[1] {
	case "verify":
		cmdVerify(os.Args[2:])
	case "dump":
		cmdDump(os.Args[2:])
	case "check":
		cmdCheck(os.Args[2:])
	case "replay":
		cmdReplay(os.Args[2:])
	case "bindings":
		cmdBindings(os.Args[2:])
	default:
		fmt.Fprintln(os.Stderr, "unknown command", os.Args[1])
		os.Exit(2)
	}
}

func mkWorkdir() string {
	d, err := os.MkdirTemp("", "govc-")
	if err != nil {
		panic(err)
	}
	return d
}

func cmdDump(args []string) {
	fs := flag.NewFlagSet("dump", flag.ExitOnError)
	pkg := fs.String("pkg", "", "package pattern")
	fnk := fs.String("func", "", "function key")
	fs.Parse(args)
	e, err := loadEngine(repoDir, strings.Split(*pkg, ","), "/verif/contracts", "/verif/extern")
	if err != nil {
		fmt.Fprintln(os.Stderr, err)
		os.Exit(2)
	}
	for _, p := range e.tpkgs {
		fn := e.findFunc(p.PkgPath, *fnk)
		if fn != nil {
			fn.WriteTo(os.Stdout)
			for _, a := range fn.AnonFuncs {
				a.WriteTo(os.Stdout)
			}
		}
	}
}

func cmdVerify(args []string) {
	fs := flag.NewFlagSet("verify", flag.ExitOnError)
	pkg := fs.String("pkg", "", "package patterns, comma separated")
	only := fs.String("func", "", "only this function key")
	all := fs.Bool("all", false, "run all solvers")
	keep := fs.String("keep", "", "directory to keep failing queries in")
	v := fs.Bool("v", false, "verbose")
	fs.Parse(args)
	e, err := loadEngine(repoDir, strings.Split(*pkg, ","), "/verif/contracts", "/verif/extern")
	if err != nil {
		fmt.Fprintln(os.Stderr, err)
		os.Exit(2)
	}
	e.workdir = mkWorkdir()
	defer os.RemoveAll(e.workdir)
	if *all {
		e.mode = "all"
	}
	bad := 0
	for _, p := range e.tpkgs {
		for _, id := range e.specs.keysFor(p.PkgPath) {
			c := e.specs.Contracts[id]
			if c.Iface || c.NoBody {
				continue
			}
			if *only != "" && c.Key != *only {
				continue
			}
			fn := e.findFunc(c.PkgPath, c.Key)
			if fn == nil {
				fmt.Printf("BIND-FAIL %s: function not found\n", id)
				bad++
				continue
			}
			rep := e.verifyFunc(fn, c)
			printReport(rep, *v, *keep)
			for _, r := range rep.Results {
				if r.Verdict != "discharged" {
					bad++
				}
			}
			if rep.Unsupported != "" || rep.Vacuity != "" {
				bad++
			}
		}
	}
	if bad > 0 {
		os.Exit(1)
	}
}

func printReport(rep *FuncReport, verbose bool, keep string) {
	fmt.Printf("== %s.%s  paths=%d returns=%d ms=%d props=%v\n", rep.Pkg, rep.Key, rep.Paths, rep.Returns, rep.Ms, rep.Props)
	if rep.Trusted != "" {
		fmt.Printf("   TRUSTED: %s\n", rep.Trusted)
	}
	if rep.Unsupported != "" {
		fmt.Printf("   OUT-OF-SUBSET: %s\n", rep.Unsupported)
	}
	if rep.Vacuity != "" {
		fmt.Printf("   VACUOUS: %s\n", rep.Vacuity)
	}
	if len(rep.NeverHooks) > 0 {
		fmt.Printf("   NEVER-FIRES (assert/ghost hooks that matched no call): %s\n", strings.Join(rep.NeverHooks, ", "))
	}
	if len(rep.NeverEvents) > 0 {
		fmt.Printf("   NEVER-OCCURS (clauses naming these events can only state absence): %s\n", strings.Join(rep.NeverEvents, ", "))
	}
	for _, r := range rep.Results {
		if r.Verdict == "discharged" && !verbose {
			continue
		}
		fmt.Printf("   %-12s %s  [%s %dms %dB paths=%d] %s — %s\n", r.Verdict, r.Name, r.Solver, r.Ms, r.Bytes, r.Paths, r.Pos, r.Desc)
		if r.Verdict != "discharged" {
			var ks []string
			for k := range r.Model {
				if strings.HasPrefix(k, "in!") || strings.HasPrefix(k, "ex!") || strings.HasPrefix(k, "r!") {
					ks = append(ks, k)
				}
			}
			sort.Strings(ks)
			for _, k := range ks {
				fmt.Printf("        %s = %s\n", k, r.Model[k])
			}
			if keep != "" && r.Query != "" {
				os.MkdirAll(keep, 0o755)
				fn := keep + "/" + strings.NewReplacer("/", "_", " ", "_", "*", "", "(", "", ")", "").Replace(r.Name) + ".smt2"
				os.WriteFile(fn, []byte(r.Query), 0o644)
			}
		}
	}
	n := 0
	for _, r := range rep.Results {
		if r.Verdict == "discharged" {
			n++
		}
	}
	fmt.Printf("   %d/%d obligations discharged\n", n, len(rep.Results))
	if verbose {
		for _, n := range rep.Notes {
			fmt.Printf("   note: %s\n", n)
		}
	}
}

var _ = ssa.NaiveForm

func init() {
	if os.Getenv("GOVC_KEEPDIR") != "" {
		keepDir = os.Getenv("GOVC_KEEPDIR")
		os.MkdirAll(keepDir, 0o755)
	}
}

var keepDir string

// repoDir is /repo; the selftest points it at a scratch worktree (GOVC_REPO)
// so that mutants are never applied to /repo itself.
var repoDir = func() string {
	if d := os.Getenv("GOVC_REPO"); d != "" {
		return d
	}
	return "/repo"
}()
