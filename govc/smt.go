package main

// SMT term construction with light constant folding, and the solver portfolio.

import (
	"bytes"
	"context"
	"fmt"
	"math/big"
	"os"
	"os/exec"
	"path/filepath"
	"regexp"
	"strings"
	"sync/atomic"
	"time"
)

// Term is an SMT-LIB term with its sort ("Int", "Bool" or an array sort).
type Term struct {
	S    string
	Sort string
}

const (
	SInt  = "Int"
	SBool = "Bool"
)

var (
	TTrue  = Term{"true", SBool}
	TFalse = Term{"false", SBool}
)

func arrSort(elem string) string { return "(Array Int " + elem + ")" }

func I(n int64) Term {
	if n < 0 {
		return Term{fmt.Sprintf("(- %d)", -n), SInt}
	}
	return Term{fmt.Sprintf("%d", n), SInt}
}

func IBig(n *big.Int) Term {
	if n.Sign() < 0 {
		return Term{"(- " + new(big.Int).Neg(n).String() + ")", SInt}
	}
	return Term{n.String(), SInt}
}

func B(b bool) Term {
	if b {
		return TTrue
	}
	return TFalse
}

var intLitRe = regexp.MustCompile(`^(\d+|\(- \d+\))$`)

func (t Term) IntLit() (*big.Int, bool) {
	if t.Sort != SInt || !intLitRe.MatchString(t.S) {
		return nil, false
	}
	s := t.S
	neg := false
	if strings.HasPrefix(s, "(- ") {
		neg = true
		s = s[3 : len(s)-1]
	}
	n, ok := new(big.Int).SetString(s, 10)
	if !ok {
		return nil, false
	}
	if neg {
		n.Neg(n)
	}
	return n, true
}

func (t Term) IsTrue() bool  { return t.S == "true" }
func (t Term) IsFalse() bool { return t.S == "false" }

func app(sort, op string, args ...Term) Term {
	var b strings.Builder
	b.WriteString("(")
	b.WriteString(op)
	for _, a := range args {
		b.WriteString(" ")
		b.WriteString(a.S)
	}
	b.WriteString(")")
	return Term{b.String(), sort}
}

func Not(a Term) Term {
	if a.IsTrue() {
		return TFalse
	}
	if a.IsFalse() {
		return TTrue
	}
	if strings.HasPrefix(a.S, "(not ") {
		return Term{a.S[5 : len(a.S)-1], SBool}
	}
	return app(SBool, "not", a)
}

func And(as ...Term) Term {
	var keep []Term
	for _, a := range as {
		if a.IsFalse() {
			return TFalse
		}
		if a.IsTrue() {
			continue
		}
		keep = append(keep, a)
	}
	switch len(keep) {
	case 0:
		return TTrue
	case 1:
		return keep[0]
	}
	return app(SBool, "and", keep...)
}

func Or(as ...Term) Term {
	var keep []Term
	for _, a := range as {
		if a.IsTrue() {
			return TTrue
		}
		if a.IsFalse() {
			continue
		}
		keep = append(keep, a)
	}
	switch len(keep) {
	case 0:
		return TFalse
	case 1:
		return keep[0]
	}
	return app(SBool, "or", keep...)
}

func Implies(a, b Term) Term {
	if a.IsTrue() {
		return b
	}
	if a.IsFalse() || b.IsTrue() {
		return TTrue
	}
	if b.IsFalse() {
		return Not(a)
	}
	return app(SBool, "=>", a, b)
}

func Iff(a, b Term) Term { return Eq(a, b) }

func Eq(a, b Term) Term {
	if a.S == b.S {
		return TTrue
	}
	if x, ok := a.IntLit(); ok {
		if y, ok := b.IntLit(); ok {
			return B(x.Cmp(y) == 0)
		}
	}
	if a.Sort == SBool {
		if a.IsTrue() {
			return b
		}
		if b.IsTrue() {
			return a
		}
		if a.IsFalse() {
			return Not(b)
		}
		if b.IsFalse() {
			return Not(a)
		}
	}
	return app(SBool, "=", a, b)
}

func Ne(a, b Term) Term { return Not(Eq(a, b)) }

func cmp(op string, a, b Term) Term {
	if x, ok := a.IntLit(); ok {
		if y, ok := b.IntLit(); ok {
			c := x.Cmp(y)
			switch op {
			case "<":
				return B(c < 0)
			case "<=":
				return B(c <= 0)
			case ">":
				return B(c > 0)
			case ">=":
				return B(c >= 0)
			}
		}
	}
	if a.S == b.S {
		return B(op == "<=" || op == ">=")
	}
	return app(SBool, op, a, b)
}

func Lt(a, b Term) Term { return cmp("<", a, b) }
func Le(a, b Term) Term { return cmp("<=", a, b) }
func Gt(a, b Term) Term { return cmp(">", a, b) }
func Ge(a, b Term) Term { return cmp(">=", a, b) }

func Add(a, b Term) Term {
	x, okx := a.IntLit()
	y, oky := b.IntLit()
	if okx && oky {
		return IBig(new(big.Int).Add(x, y))
	}
	if okx && x.Sign() == 0 {
		return b
	}
	if oky && y.Sign() == 0 {
		return a
	}
	return app(SInt, "+", a, b)
}

func Sub(a, b Term) Term {
	x, okx := a.IntLit()
	y, oky := b.IntLit()
	if okx && oky {
		return IBig(new(big.Int).Sub(x, y))
	}
	if oky && y.Sign() == 0 {
		return a
	}
	if a.S == b.S {
		return I(0)
	}
	return app(SInt, "-", a, b)
}

func Mul(a, b Term) Term {
	x, okx := a.IntLit()
	y, oky := b.IntLit()
	if okx && oky {
		return IBig(new(big.Int).Mul(x, y))
	}
	if okx && x.Cmp(big.NewInt(1)) == 0 {
		return b
	}
	if oky && y.Cmp(big.NewInt(1)) == 0 {
		return a
	}
	return app(SInt, "*", a, b)
}

func Neg(a Term) Term { return Sub(I(0), a) }

func Ite(c, a, b Term) Term {
	if c.IsTrue() {
		return a
	}
	if c.IsFalse() {
		return b
	}
	if a.S == b.S {
		return a
	}
	return app(a.Sort, "ite", c, a, b)
}

func Select(arr, idx Term) Term {
	// sort of result: strip "(Array Int " prefix
	es := strings.TrimSuffix(strings.TrimPrefix(arr.Sort, "(Array Int "), ")")
	return app(es, "select", arr, idx)
}

func Store(arr, idx, v Term) Term { return app(arr.Sort, "store", arr, idx, v) }

func Min(a, b Term) Term { return Ite(Le(a, b), a, b) }

// ---------------------------------------------------------------------------
// Solver portfolio

type SolverResult struct {
	Verdict string // unsat | sat | unknown | timeout | error
	Solver  string
	Ms      int64
	Model   string
	Raw     string
}

var solverTimeout = 6 * time.Second

type solverSpec struct {
	name string
	argv func(file string, tmo time.Duration) []string
}

var solvers = []solverSpec{
	{"z3-new-5.1.0", func(f string, t time.Duration) []string {
		return []string{"z3-new", fmt.Sprintf("-T:%d", int(t.Seconds())+1), f}
	}},
	{"z3-4.8.12", func(f string, t time.Duration) []string {
		return []string{"/usr/bin/z3", fmt.Sprintf("-T:%d", int(t.Seconds())+1), f}
	}},
	{"cvc5-1.0", func(f string, t time.Duration) []string {
		return []string{"cvc5", "--produce-models", fmt.Sprintf("--tlimit=%d", t.Milliseconds()), f}
	}},
}

var queryCounter int64

func runOne(ctx context.Context, sp solverSpec, file string, tmo time.Duration) SolverResult {
	start := time.Now()
	cctx, cancel := context.WithTimeout(ctx, tmo+2*time.Second)
	defer cancel()
	argv := sp.argv(file, tmo)
	cmd := exec.CommandContext(cctx, argv[0], argv[1:]...)
	var out bytes.Buffer
	cmd.Stdout = &out
	cmd.Stderr = &out
	_ = cmd.Run()
	ms := time.Since(start).Milliseconds()
	raw := out.String()
	first := strings.TrimSpace(strings.SplitN(raw, "\n", 2)[0])
	res := SolverResult{Solver: sp.name, Ms: ms, Raw: raw}
	switch first {
	case "unsat":
		res.Verdict = "unsat"
	case "sat":
		res.Verdict = "sat"
		if i := strings.Index(raw, "\n"); i >= 0 {
			res.Model = raw[i+1:]
		}
	case "unknown":
		res.Verdict = "unknown"
	case "timeout":
		res.Verdict = "timeout"
	default:
		if cctx.Err() != nil || strings.Contains(raw, "timeout") || strings.Contains(raw, "interrupted") {
			res.Verdict = "timeout"
		} else {
			res.Verdict = "error"
		}
	}
	return res
}

// Solve runs the portfolio. mode "first": first decisive (sat/unsat) answer wins.
// mode "all": every solver is run and all results returned (thorough cross-check).
func Solve(workdir, name, query string, mode string) (SolverResult, []SolverResult) {
	n := atomic.AddInt64(&queryCounter, 1)
	file := filepath.Join(workdir, fmt.Sprintf("q%05d.smt2", n))
	_ = os.WriteFile(file, []byte(query), 0o644)
	defer os.Remove(file)
	ctx, cancel := context.WithCancel(context.Background())
	defer cancel()
	ch := make(chan SolverResult, len(solvers))
	// quick mode: try z3-new alone first with a short budget; most goals close in ms.
	if mode == "first" {
		r := runOne(ctx, solvers[0], file, 2*time.Second)
		if r.Verdict == "unsat" || r.Verdict == "sat" {
			return r, []SolverResult{r}
		}
	}
	for _, sp := range solvers {
		sp := sp
		go func() { ch <- runOne(ctx, sp, file, solverTimeout) }()
	}
	var all []SolverResult
	var best *SolverResult
	for range solvers {
		r := <-ch
		all = append(all, r)
		if r.Verdict == "unsat" || r.Verdict == "sat" {
			if best == nil {
				rr := r
				best = &rr
				if mode == "first" {
					cancel()
					return *best, all
				}
			}
		}
	}
	if best != nil {
		return *best, all
	}
	// prefer unknown over timeout over error for reporting
	pick := all[0]
	for _, r := range all {
		if r.Verdict == "unknown" {
			pick = r
		}
	}
	return pick, all
}

// parseModel extracts (define-fun name () Sort value) entries for scalar constants.
var modelRe = regexp.MustCompile(`\(define-fun\s+(\S+)\s+\(\)\s+(Int|Bool)\s+([^\n]*?)\)\s*(?:\n|$)`)

func parseModel(model string) map[string]string {
	out := map[string]string{}
	// normalise whitespace so multi-line define-funs become single line
	flat := regexp.MustCompile(`\s+`).ReplaceAllString(model, " ")
	re := regexp.MustCompile(`\(define-fun (\S+) \(\) (Int|Bool) (\(- \d+\)|-?\d+|true|false)\)`)
	for _, m := range re.FindAllStringSubmatch(flat, -1) {
		v := m[3]
		if strings.HasPrefix(v, "(- ") {
			v = "-" + v[3:len(v)-1]
		}
		out[strings.Trim(m[1], "|")] = v
	}
	return out
}
