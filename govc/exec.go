package main

// Symbolic executor / VC generator over go/ssa (NaiveForm).

import (
	"bytes"
	"fmt"
	"go/ast"
	"go/constant"
	"go/printer"
	"go/token"
	"go/types"
	"io"
	"math/big"
	"os"
	"sort"
	"strings"

	"golang.org/x/tools/go/ssa"
)

type bigInt = big.Int

func parseBig(s string) (*big.Int, bool) {
	s = strings.ReplaceAll(s, "_", "")
	n, ok := new(big.Int).SetString(s, 0)
	return n, ok
}

func printerFprint(w io.Writer, e ast.Expr) error { return printer.Fprint(w, token.NewFileSet(), e) }

type cont func(st *State, results []Val)

// ---------------------------------------------------------------------------
// naming of obligations (by kind, subject and ordinal; never by line)

func subjectOf(v ssa.Value) string {
	switch x := v.(type) {
	case *ssa.Alloc:
		if x.Comment != "" {
			return x.Comment
		}
	case *ssa.Parameter:
		return x.Name()
	case *ssa.FreeVar:
		return x.Name()
	case *ssa.Global:
		return x.Name()
	case *ssa.UnOp:
		return subjectOf(x.X)
	case *ssa.FieldAddr:
		st := x.X.Type().Underlying().(*types.Pointer).Elem().Underlying().(*types.Struct)
		return st.Field(x.Field).Name()
	case *ssa.Field:
		st := x.X.Type().Underlying().(*types.Struct)
		return st.Field(x.Field).Name()
	case *ssa.IndexAddr:
		return subjectOf(x.X) + "[]"
	case *ssa.Call:
		return calleeName(&x.Call)
	case *ssa.Extract:
		return subjectOf(x.Tuple)
	case *ssa.Slice:
		return subjectOf(x.X)
	case *ssa.Convert:
		return subjectOf(x.X)
	case *ssa.ChangeType:
		return subjectOf(x.X)
	case *ssa.MakeInterface:
		return subjectOf(x.X)
	case *ssa.TypeAssert:
		return subjectOf(x.X)
	case *ssa.Phi:
		return x.Comment
	}
	return ""
}

func calleeName(c *ssa.CallCommon) string {
	if c.IsInvoke() {
		return c.Method.Name()
	}
	switch f := c.Value.(type) {
	case *ssa.Function:
		return plainName(f.Name())
	case *ssa.Builtin:
		return f.Name()
	case *ssa.MakeClosure:
		return f.Fn.Name()
	}
	if s := subjectOf(c.Value); s != "" {
		return s
	}
	return "dyn"
}

// plainName strips the type arguments from the name of an instantiated generic function.
func plainName(n string) string {
	if i := strings.Index(n, "["); i > 0 {
		return n[:i]
	}
	return n
}

func instrSubject(in ssa.Instruction, kind string) string {
	switch x := in.(type) {
	case *ssa.IndexAddr:
		return subjectOf(x.X)
	case *ssa.Index:
		return subjectOf(x.X)
	case *ssa.Lookup:
		return subjectOf(x.X)
	case *ssa.Slice:
		return subjectOf(x.X)
	case *ssa.FieldAddr:
		return subjectOf(x.X)
	case *ssa.UnOp:
		return subjectOf(x.X)
	case *ssa.Store:
		return subjectOf(x.Addr)
	case *ssa.MapUpdate:
		return subjectOf(x.Map)
	case *ssa.MakeSlice:
		return ""
	case *ssa.TypeAssert:
		return subjectOf(x.X)
	case *ssa.Call:
		return calleeName(&x.Call)
	case *ssa.Defer:
		return calleeName(&x.Call)
	case *ssa.Go:
		return calleeName(&x.Call)
	case *ssa.Send:
		return subjectOf(x.Chan)
	case *ssa.BinOp:
		return subjectOf(x.Y)
	}
	return ""
}

// oblName returns the stable name of an obligation raised at instr.
func (c *Ctx) oblName(in ssa.Instruction, kind string) string {
	fn := in.Parent()
	subj := c.eng.stableSubject(fn, instrSubject(in, kind))
	tbl := c.eng.nameTable(fn)
	key := kind + "[" + subj + "]"
	ord := 0
	for i, x := range tbl[key] {
		if x == in {
			ord = i + 1
			break
		}
	}
	if ord == 0 {
		// not pre-registered: register now (stable because order of first use follows block order only approximately)
		tbl[key] = append(tbl[key], in)
		ord = len(tbl[key])
	}
	return fmt.Sprintf("%s.%s#%s#%d", shortPkg(funcPkgPath(fn)), funcKey(fn), key, ord)
}

func shortPkg(p string) string {
	return strings.TrimPrefix(p, "github.com/ipni/go-libipni/")
}

func (e *Engine) nameTable(fn *ssa.Function) map[string][]ssa.Instruction {
	if t, ok := e.nameTables[fn]; ok {
		return t
	}
	t := map[string][]ssa.Instruction{}
	add := func(kind string, in ssa.Instruction) {
		key := kind + "[" + e.stableSubject(fn, instrSubject(in, kind)) + "]"
		t[key] = append(t[key], in)
	}
	for _, b := range fn.Blocks {
		for _, in := range b.Instrs {
			switch x := in.(type) {
			case *ssa.IndexAddr, *ssa.Index:
				add("index", in)
			case *ssa.Lookup:
				add("index", in)
			case *ssa.Slice:
				add("slice", in)
			case *ssa.MakeSlice:
				add("makeslice", in)
				add("allocbound", in)
			case *ssa.FieldAddr:
				add("nil", in)
			case *ssa.UnOp:
				if x.Op == token.MUL {
					add("nil", in)
					add("protect", in)
				}
				if x.Op == token.ARROW {
					add("recv", in)
					add("shutdown", in)
				}
			case *ssa.Store:
				add("nil", in)
				add("frame", in)
				add("protect", in)
			case *ssa.MapUpdate:
				add("nilmap", in)
				add("frame", in)
			case *ssa.TypeAssert:
				add("typeassert", in)
			case *ssa.BinOp:
				if x.Op == token.QUO || x.Op == token.REM {
					add("div", in)
				}
			case *ssa.Panic:
				add("panic", in)
			case *ssa.Call:
				add("frame", in)
				add("det", in)
				add("pre", in)
				add("assert", in)
				add("lock", in)
				add("unlock", in)
				add("close", in)
				add("nil", in)
				add("call", in)
			case *ssa.Defer:
				add("pre", in)
				add("lock", in)
				add("unlock", in)
				add("close", in)
				add("call", in)
			case *ssa.Go:
				add("pre", in)
				add("call", in)
			case *ssa.Send:
				add("send", in)
				add("shutdown", in)
			case *ssa.Select:
				add("select", in)
				add("shutdown", in)
			}
		}
	}
	e.nameTables[fn] = t
	return t
}

func (st *State) posOf(in ssa.Instruction) string {
	if in == nil {
		return ""
	}
	p := in.Pos()
	if !p.IsValid() {
		// fall back to the closest earlier instruction with a position
		b := in.Block()
		for i := len(b.Instrs) - 1; i >= 0; i-- {
			if b.Instrs[i] == in {
				for j := i; j >= 0; j-- {
					if b.Instrs[j].Pos().IsValid() {
						p = b.Instrs[j].Pos()
						break
					}
				}
			}
		}
	}
	if !p.IsValid() {
		return ""
	}
	pos := st.ctx.eng.prog.Fset.Position(p)
	return fmt.Sprintf("%s:%d", strings.TrimPrefix(pos.Filename, repoDir+"/"), pos.Line)
}

func (st *State) oblige(in ssa.Instruction, kind string, goal Term, desc string) {
	st.obligeNamed(st.ctx.oblName(in, kind), kind, st.posOf(in), goal, desc)
}

func (st *State) obligeNamed(name, kind, pos string, goal Term, desc string) {
	if st.dry != nil || st.dead {
		return
	}
	o := &Obligation{Name: name, Kind: kind, Func: funcKey(st.ctx.fn), Pos: pos, Desc: desc,
		Decls: len(st.ctx.decls), Asserts: st.pc, Goal: goal, PathID: st.pathID}
	st.ctx.obls = append(st.ctx.obls, o)
	// after the check the fact may be assumed (a failing path is reported once, not at every later use)
	st.assume(goal)
}

// ---------------------------------------------------------------------------
// strings, bytes

func (c *Ctx) strLit(s string, st *State) Term {
	if s == "" {
		return I(0)
	}
	id, ok := c.strLits[s]
	if !ok {
		id = int64(len(c.strLits) + 1)
		c.strLits[s] = id
		f := c.declareFun("strlen", []string{SInt}, SInt)
		c.decls = append(c.decls, fmt.Sprintf("(assert (= (%s %d) %d))", f, id, len(s)))
	}
	return I(id)
}

func (st *State) strLen(s Term) Term {
	if n, ok := s.IntLit(); ok {
		for lit, id := range st.ctx.strLits {
			if id == n.Int64() {
				return I(int64(len(lit)))
			}
		}
		if n.Sign() == 0 {
			return I(0)
		}
	}
	f := st.ctx.declareFun("strlen", []string{SInt}, SInt)
	t := Term{fmt.Sprintf("(%s %s)", f, s.S), SInt}
	st.assumeOnce(And(Ge(t, I(0)), Eq(Eq(t, I(0)), Eq(s, I(0)))))
	return t
}

func isByteLike(t types.Type) bool {
	b, ok := t.Underlying().(*types.Basic)
	return ok && (b.Kind() == types.Uint8 || b.Kind() == types.Int8)
}

func (st *State) assumeOnce(t Term) {
	if t.IsTrue() {
		return
	}
	for i := len(st.pc) - 1; i >= 0 && i >= len(st.pc)-400; i-- {
		if st.pc[i] == t.S {
			return
		}
	}
	st.assume(t)
}

// bytesOf returns the abstract content id of a slice value.
func (st *State) bytesOf(v Val) Term {
	sl, ok := v.T.Underlying().(*types.Slice)
	if !ok {
		if isString(v.T) {
			f := st.ctx.declareFun("str2bytes", []string{SInt}, SInt)
			return Term{fmt.Sprintf("(%s %s)", f, v.L[0].S), SInt}
		}
		unsup("bytesOf on %s", v.T)
	}
	ls := leavesOf(sl.Elem())
	if len(ls) != 1 {
		unsup("content of slice with composite elements")
	}
	h := st.heapTerm(elemKey(sl.Elem(), ls[0].Path), ls[0].Sort, true)
	fname := "bytesOf"
	if ls[0].Sort != SInt {
		fname = "bytesOfB"
	}
	if n, ok := v.L[2].IntLit(); ok && n.Sign() == 0 {
		return st.bempty()
	}
	f := st.ctx.declareFun(fname, []string{arrSort(ls[0].Sort), SInt, SInt}, SInt)
	bl := st.ctx.declareFun("sf!blen", []string{SInt}, SInt)
	t := Term{fmt.Sprintf("(%s %s %s %s)", f, Select(h, v.L[0]).S, v.L[1].S, v.L[2].S), SInt}
	st.assumeOnce(Eq(Term{fmt.Sprintf("(%s %s)", bl, t.S), SInt}, v.L[2]))
	return t
}

func (st *State) bempty() Term {
	return Term{st.ctx.declareFun("sf!bempty", nil, SInt), SInt}
}

func (st *State) bcat(a, b Term) Term {
	f := st.ctx.declareFun("sf!bcat", []string{SInt, SInt}, SInt)
	return Term{fmt.Sprintf("(%s %s %s)", f, a.S, b.S), SInt}
}

func (st *State) bsub(a, lo, hi Term) Term {
	f := st.ctx.declareFun("sf!bsub", []string{SInt, SInt, SInt}, SInt)
	return Term{fmt.Sprintf("(%s %s %s %s)", f, a.S, lo.S, hi.S), SInt}
}

// catAll: concatenation of the contents of a slice of byte slices. Exact
// (a bcat chain) when the length is a literal, otherwise an uninterpreted
// function of the nested representation.
func (st *State) catAll(v Val) Term {
	sl, ok := v.T.Underlying().(*types.Slice)
	if !ok {
		unsup("catAll of %s", v.T)
	}
	inner, ok := sl.Elem().Underlying().(*types.Slice)
	if !ok {
		unsup("catAll of %s", v.T)
	}
	if n, ok := v.L[2].IntLit(); ok && n.Int64() <= 16 {
		acc := st.bempty()
		for i := int64(0); i < n.Int64(); i++ {
			p := &PtrInfo{Kind: pkElem, Root: sl.Elem(), Ref: v.L[0], Idx: Add(v.L[1], I(i))}
			ev := st.loadQuiet(p, nil)
			c := st.bytesOf(ev)
			if i == 0 {
				acc = c
			} else {
				acc = st.bcat(acc, c)
			}
		}
		return acc
	}
	_ = inner
	var args []Term
	var sorts []string
	for _, l := range leavesOf(sl.Elem()) {
		h := st.heapTerm(elemKey(sl.Elem(), l.Path), l.Sort, true)
		args = append(args, Select(h, v.L[0]))
		sorts = append(sorts, arrSort(l.Sort))
	}
	il := leavesOf(inner.Elem())
	if len(il) != 1 {
		unsup("catAll over composite elements")
	}
	eh := st.heapTerm(elemKey(inner.Elem(), il[0].Path), il[0].Sort, true)
	args = append(args, eh, v.L[1], v.L[2])
	sorts = append(sorts, eh.Sort, SInt, SInt)
	f := st.ctx.declareFun("catAllOf", sorts, SInt)
	t := app(SInt, f, args...)
	// definitional unfolding (one step) for a symbolic length n: catAll of no slices is empty, catAll of
	// n > 0 slices is catAll of the first n-1 followed by the content of the last one. This is what lets
	// a loop invariant over catAll(s[0:i]) be carried from i to i+1.
	n := v.L[2]
	prevArgs := append(append([]Term{}, args[:len(args)-1]...), Sub(n, I(1)))
	prev := app(SInt, f, prevArgs...)
	p := &PtrInfo{Kind: pkElem, Root: sl.Elem(), Ref: v.L[0], Idx: Add(v.L[1], Sub(n, I(1)))}
	last := st.bytesOf(st.loadQuiet(p, nil))
	st.assumeOnce(Ite(Le(n, I(0)), Eq(t, st.bempty()), Eq(t, st.bcat(prev, last))))
	return t
}

// ---------------------------------------------------------------------------
// maps

func mapKeys(t types.Type) (dom string, valKey func(leaf string) string) {
	k := typeKey(t.Underlying())
	return "MD#" + k, func(leaf string) string { return "MV#" + k + "#" + leaf }
}

func (st *State) mapKeyTerm(m Val, k Val) Term {
	if len(k.L) == 1 && k.L[0].Sort == SInt {
		return k.L[0]
	}
	if len(k.L) == 1 && k.L[0].Sort == SBool {
		return Ite(k.L[0], I(1), I(0))
	}
	// composite keys are packed through an injective uninterpreted function
	var sorts []string
	for _, l := range k.L {
		sorts = append(sorts, l.Sort)
	}
	f := st.ctx.declareFun("keypack#"+typeKey(k.T), sorts, SInt)
	return app(SInt, f, k.L...)
}

func (st *State) mapDom(m Val) Term {
	dk, _ := mapKeys(m.T)
	h := st.heapTerm(dk, SBool, true)
	return Select(h, m.L[0])
}

func (st *State) mapHas(m, k Val) Term {
	return And(Ne(m.L[0], I(0)), Select(st.mapDom(m), st.mapKeyTerm(m, k)))
}

func (st *State) mapLen(m Val) Term {
	k := "MC#" + typeKey(m.T.Underlying())
	h := st.heapTerm(k, SInt, false)
	t := Select(h, m.L[0])
	// a map never holds more than 2^40 entries (it would not fit in memory)
	st.assumeOnce(And(Ge(t, I(0)), Le(t, I(1<<40)), Implies(Eq(m.L[0], I(0)), Eq(t, I(0)))))
	return t
}

func (st *State) mapLookup(m, k Val, commaOk bool, env *SpecEnv) Val {
	mt := m.T.Underlying().(*types.Map)
	_, vk := mapKeys(m.T)
	kt := st.mapKeyTerm(m, k)
	has := st.mapHas(m, k)
	ls := leavesOf(mt.Elem())
	v := Val{T: mt.Elem(), L: make([]Term, len(ls))}
	for i, l := range ls {
		h := st.heapTerm(vk(l.Path), l.Sort, true)
		v.L[i] = Ite(has, Select(Select(h, m.L[0]), kt), zeroTerm(l.Sort))
		if l.Role == "ref" || l.Role == "arr" {
			st.mapOldAxiom(vk(l.Path))
		}
	}
	st.decorate(&v)
	if env != nil {
		env.facts = append(env.facts, st.factsOf(v)...)
	} else {
		st.addFacts(v)
	}
	if commaOk {
		return Val{T: types.NewTuple(), Tup: []Val{v, boolVal(has)}}
	}
	return v
}

// mapOldAxiom: every reference stored in a map at function entry (or at the last
// havoc of the component) denotes an object that existed then. Stated once per
// base version, as a quantified fact that is only included in queries that
// mention that version.
func (st *State) mapOldAxiom(key string) {
	ent := st.entry
	if ent == nil {
		ent = st
	}
	base, ok := ent.heap[key]
	bound := Term{"A0", SInt}
	if bi, hav := st.baseVer[key]; hav {
		base, bound, ok = bi.ver, bi.bound, true
	}
	if !ok {
		return
	}
	name := "mapold!" + base.S
	if st.ctx.declSet[name] {
		return
	}
	st.ctx.declSet[name] = true
	txt := fmt.Sprintf("(assert (forall ((m Int) (k Int)) (! (<= (select (select %s m) k) %s) :pattern ((select (select %s m) k)))))", base.S, bound.S, base.S)
	st.ctx.axioms = append(st.ctx.axioms, axiomText{name: name, text: txt, syms: []string{base.S}, src: "references stored in maps at entry denote objects that existed at entry"})
}

func (st *State) mapUpdate(m, k, v Val) {
	mt := m.T.Underlying().(*types.Map)
	dk, vk := mapKeys(m.T)
	kt := st.mapKeyTerm(m, k)
	dh := st.heapTerm(dk, SBool, true)
	has := Select(Select(dh, m.L[0]), kt)
	// length
	ck := "MC#" + typeKey(m.T.Underlying())
	ch := st.heapTerm(ck, SInt, false)
	st.setHeapRow(ck, m.L[0], Store(ch, m.L[0], Ite(has, Select(ch, m.L[0]), Add(Select(ch, m.L[0]), I(1)))))
	st.setHeapRow(dk, m.L[0], Store(dh, m.L[0], Store(Select(dh, m.L[0]), kt, TTrue)))
	ls := leavesOf(mt.Elem())
	for i, l := range ls {
		key := vk(l.Path)
		h := st.heapTerm(key, l.Sort, true)
		st.setHeapRow(key, m.L[0], Store(h, m.L[0], Store(Select(h, m.L[0]), kt, v.L[i])))
	}
	if v.C != nil {
		st.ctx.closures[v.L[0].S] = v.C
	}
}

func (st *State) mapDelete(m, k Val) {
	dk, _ := mapKeys(m.T)
	kt := st.mapKeyTerm(m, k)
	dh := st.heapTerm(dk, SBool, true)
	has := st.mapHas(m, k)
	ck := "MC#" + typeKey(m.T.Underlying())
	ch := st.heapTerm(ck, SInt, false)
	// delete on a nil map is a no-op
	st.setHeapRow(ck, m.L[0], Store(ch, m.L[0], Ite(has, Sub(Select(ch, m.L[0]), I(1)), Select(ch, m.L[0]))))
	st.setHeapRow(dk, m.L[0], Ite(Eq(m.L[0], I(0)), dh, Store(dh, m.L[0], Store(Select(dh, m.L[0]), kt, TFalse))))
}

// ---------------------------------------------------------------------------
// channels (ghost)

// closedKey: the closed/open ghost state is kept per channel element type, so that
// channels of different types can never be taken for one another.
func closedKey(t types.Type) string {
	if t != nil {
		if c, ok := t.Underlying().(*types.Chan); ok {
			return "CH#closed#" + typeKey(c.Elem())
		}
	}
	return "CH#closed#?"
}

func (st *State) chanClosed(chv Val) Term {
	ch := chv.L[0]
	h := st.heapTerm(closedKey(chv.T), SBool, false)
	return Select(h, ch)
}

// ---------------------------------------------------------------------------
// events

func (st *State) event(name string, pos token.Pos, args ...Term) {
	if st.fr != nil && st.fr.fn != nil {
		name = st.ctx.eng.stableEventName(st.fr.fn, name)
	}
	st.trace = append(st.trace, Event{Name: name, Args: args, Pos: pos})
	if st.dry != nil && !strings.HasPrefix(name, "loop*") {
		st.dry.events[name] = true
	}
	if st.ctx.eventsSeen == nil {
		st.ctx.eventsSeen = map[string]bool{}
	}
	st.ctx.eventsSeen[name] = true
}

func (st *State) countEvents(name string) Term {
	n := 0
	unc := false
	// "kind:*" counts every event of that kind (go:*, send:*, ...)
	wild := strings.HasSuffix(name, ":*")
	for _, e := range st.trace {
		if strings.HasPrefix(e.Name, "loop*") {
			unc = true
		}
		if e.Name == name || (wild && strings.HasPrefix(e.Name, name[:len(name)-1])) {
			n++
		}
	}
	if unc && (wild || st.ctx.eventInLoop(name) || st.loopEvents[name]) {
		t := st.ctx.freshConst("cnt!"+name, SInt)
		st.assume(Ge(t, I(int64(n))))
		return t
	}
	return I(int64(n))
}

// eventInLoop: can an event of that name be produced inside a loop of the
// function (so that its count after a loop cut is only a lower bound)?
func (c *Ctx) eventInLoop(name string) bool {
	kind, subj := name, ""
	if i := strings.Index(name, ":"); i >= 0 {
		kind, subj = name[:i], name[i+1:]
	}
	for _, li := range c.eng.loopsOf(c.fn) {
		for b := range li.body {
			for _, in := range b.Instrs {
				switch x := in.(type) {
				case ssa.CallInstruction:
					cn := calleeName(x.Common())
					if kind == "call" {
						if cn == subj || qualifiedCalleeOf(x.Common()) == subj {
							return true
						}
						continue
					}
					if kind == "close" && cn == "close" && len(x.Common().Args) > 0 && subjectOf(x.Common().Args[0]) == subj {
						return true
					}
					// native events are named after the subject of the first argument
					if (strings.HasPrefix(kind, "atomic.") || strings.HasPrefix(kind, "wg.") || kind == "lock" || kind == "unlock" || kind == "rlock" || kind == "runlock" || kind == "once.do") &&
						len(x.Common().Args) > 0 && subjectOf(x.Common().Args[0]) == subj {
						return true
					}
				case *ssa.Send:
					if (kind == "send" || kind == "acquire") && subjectOf(x.Chan) == subj {
						return true
					}
				case *ssa.UnOp:
					if x.Op == token.ARROW && (kind == "recv" || kind == "release") && subjectOf(x.X) == subj {
						return true
					}
				case *ssa.Select:
					for _, ss := range x.States {
						if subjectOf(ss.Chan) == subj {
							return true
						}
					}
				case *ssa.Go:
					if kind == "go" {
						return true
					}
				}
			}
		}
	}
	return false
}

// eventsBefore: every occurrence of b is preceded by an occurrence of a.
func (st *State) eventsBefore(a, b string) bool {
	seenA := false
	for _, e := range st.trace {
		if e.Name == a {
			seenA = true
		}
		if e.Name == b && !seenA {
			return false
		}
	}
	return true
}

// ---------------------------------------------------------------------------
// values of SSA operands

func (st *State) globalPtr(g *ssa.Global) Val {
	id := st.ctx.eng.globalID(g)
	elem := g.Type().(*types.Pointer).Elem()
	return Val{T: g.Type(), L: []Term{I(-id)}, P: &PtrInfo{Kind: pkHeap, Root: elem, Ref: I(-id)}}
}

func (st *State) get(v ssa.Value) Val {
	switch x := v.(type) {
	case *ssa.Const:
		return st.constOf(x)
	case *ssa.Global:
		return st.globalPtr(x)
	case *ssa.Function:
		id := st.ctx.eng.funcID(x)
		return Val{T: x.Type(), L: []Term{I(id)}, C: &Closure{Fn: x}}
	case *ssa.Builtin:
		unsup("builtin %s used as value", x.Name())
	}
	for f := st.fr; f != nil; f = f.parent {
		if r, ok := f.regs[v]; ok {
			return r
		}
		break // registers are frame-local
	}
	unsup("no value for %s (%T) in %s", v.Name(), v, st.fr.fn.Name())
	return Val{}
}

func (st *State) constOf(c *ssa.Const) Val {
	t := c.Type()
	if c.Value == nil {
		return zeroVal(t)
	}
	switch c.Value.Kind() {
	case constant.Bool:
		return Val{T: t, L: []Term{B(constant.BoolVal(c.Value))}}
	case constant.Int:
		if isInteger(t) {
			bi, _ := parseBig(c.Value.ExactString())
			return Val{T: t, L: []Term{IBig(bi)}}
		}
		if b, ok := t.Underlying().(*types.Basic); ok && b.Info()&types.IsFloat != 0 {
			return Val{T: t, L: []Term{st.ctx.freshConst("float", SInt)}}
		}
	case constant.String:
		return Val{T: t, L: []Term{st.ctx.strLit(constant.StringVal(c.Value), st)}}
	case constant.Float:
		return Val{T: t, L: []Term{st.ctx.freshConst("float", SInt)}}
	}
	unsup("constant %s of type %s", c.Value, t)
	return Val{}
}

func (st *State) set(v ssa.Value, val Val) {
	if val.T == nil || len(val.Tup) == 0 {
		val.T = v.Type()
	}
	st.fr.regs[v] = val
}

// ---------------------------------------------------------------------------
// loops

func (e *Engine) loopsOf(fn *ssa.Function) map[*ssa.BasicBlock]*loopInfo {
	if l, ok := e.loopCache[fn]; ok {
		return l
	}
	res := map[*ssa.BasicBlock]*loopInfo{}
	for _, b := range fn.Blocks {
		for _, s := range b.Succs {
			if s.Dominates(b) { // back edge b -> s
				li := res[s]
				if li == nil {
					li = &loopInfo{header: s, body: map[*ssa.BasicBlock]bool{s: true}}
					res[s] = li
				}
				// natural loop: nodes that reach b without passing through s
				stack := []*ssa.BasicBlock{b}
				for len(stack) > 0 {
					n := stack[len(stack)-1]
					stack = stack[:len(stack)-1]
					if li.body[n] {
						continue
					}
					li.body[n] = true
					stack = append(stack, n.Preds...)
				}
			}
		}
	}
	// ordinals by source position of the header's first positioned instruction, then block index
	var hs []*loopInfo
	for _, li := range res {
		hs = append(hs, li)
	}
	sort.Slice(hs, func(i, j int) bool { return hs[i].header.Index < hs[j].header.Index })
	for i, li := range hs {
		li.ordinal = i + 1
		seen := map[*ssa.Alloc]bool{}
		for b := range li.body {
			for _, in := range b.Instrs {
				if s, ok := in.(*ssa.Store); ok {
					if a := rootAlloc(s.Addr); a != nil && !li.body[a.Block()] && !seen[a] {
						seen[a] = true
						li.allocs = append(li.allocs, a)
					}
				}
			}
		}
		sort.Slice(li.allocs, func(a, b int) bool { return li.allocs[a].Pos() < li.allocs[b].Pos() })
	}
	e.loopCache[fn] = res
	return res
}

// monotoneCounter: +1 if every store to a inside the loop is a = a + c (c >= 0),
// -1 if every store is a = a - c (c >= 0), 0 otherwise.
func monotoneCounter(li *loopInfo, a *ssa.Alloc) int {
	if !isInteger(a.Type().Underlying().(*types.Pointer).Elem()) {
		return 0
	}
	dir := 0
	n := 0
	for b := range li.body {
		for _, in := range b.Instrs {
			st, ok := in.(*ssa.Store)
			if !ok || st.Addr != ssa.Value(a) {
				if ok {
					if ra := rootAlloc(st.Addr); ra == a {
						return 0
					}
				}
				continue
			}
			n++
			bo, ok := st.Val.(*ssa.BinOp)
			if !ok || (bo.Op != token.ADD && bo.Op != token.SUB) {
				return 0
			}
			ld, ok := bo.X.(*ssa.UnOp)
			if !ok || ld.Op != token.MUL || ld.X != ssa.Value(a) {
				return 0
			}
			c, ok := bo.Y.(*ssa.Const)
			if !ok || c.Value == nil || c.Value.Kind() != constant.Int || constant.Sign(c.Value) < 0 {
				return 0
			}
			d := 1
			if bo.Op == token.SUB {
				d = -1
			}
			if dir != 0 && dir != d {
				return 0
			}
			dir = d
		}
	}
	if n == 0 {
		return 0
	}
	return dir
}

func rootAlloc(v ssa.Value) *ssa.Alloc {
	for {
		switch x := v.(type) {
		case *ssa.Alloc:
			if x.Heap {
				return nil
			}
			return x
		case *ssa.FieldAddr:
			v = x.X
		case *ssa.IndexAddr:
			v = x.X
		default:
			return nil
		}
	}
}

// localsEnv resolves source-level local variable names to current cell values.
func (st *State) localsEnv(env *SpecEnv) func(string) (Val, bool) {
	fr := st.fr
	eng := st.ctx.eng
	tname := func(a *ssa.Alloc) string {
		return types.TypeString(a.Type(), func(p *types.Package) string { return p.Name() })
	}
	return func(name string) (Val, bool) {
		sb := env.scope
		// among the live variables that match, the most recently created one
		// (innermost scope / current loop) wins
		pick := func(match func(a *ssa.Alloc) bool) *ssa.Alloc {
			var best *ssa.Alloc
			bestCell := -1
			for v, rv := range fr.regs {
				a, ok := v.(*ssa.Alloc)
				if !ok || rv.P == nil || !match(a) {
					continue
				}
				if sb != nil && a.Block() != nil && a.Block().Parent() == sb.Parent() && !a.Block().Dominates(sb) {
					continue // declared in a block that does not dominate the clause's program point: not in scope
				}
				id := 0
				if rv.P.Kind == pkCell {
					if _, live := st.cells[rv.P.Cell]; !live {
						continue
					}
					id = rv.P.Cell
				}
				if best == nil || id > bestCell {
					best, bestCell = a, id
				}
			}
			return best
		}
		best := pick(func(a *ssa.Alloc) bool { return a.Comment == name })
		offset := int64(0)
		// the variable this identifier of this clause denoted when /verif/bindings.json was
		// made: used when the name is gone, or now names a variable of another kind
		if rec := eng.recordedFingerprint(fr.fn, env.clause, name); rec != "" {
			want, wantType := rec, ""
			if i := strings.Index(rec, "|"); i >= 0 {
				want, wantType = rec[:i], rec[i+1:]
			}
			fps := eng.allocFingerprints(fr.fn)
			isCounter := func(fp string) bool {
				return strings.HasPrefix(fp, "rangeindex:") || strings.HasPrefix(fp, "counter:")
			}
			retry := best == nil
			if best != nil && fps[best] != want {
				if isCounter(want) && (isCounter(fps[best]) || best.Comment == "rangeindex") {
					retry = true
				} else if wantType != "" && tname(best) != wantType {
					retry = true
				}
			}
			if retry {
				alt := pick(func(a *ssa.Alloc) bool { return fps[a] == want && (wantType == "" || tname(a) == wantType) })
				if alt == nil {
					if cp := counterpart(want); cp != "" {
						alt = pick(func(a *ssa.Alloc) bool { return fps[a] == cp })
						if alt != nil {
							// at a loop head and at the end of an iteration an explicit unit counter is one
							// ahead of the hidden index of a range loop; inside the body and after the loop they agree
							atCut := env.what == "invariant" || env.what == "decreases" || strings.HasPrefix(env.what, "iteration")
							if atCut {
								if strings.HasPrefix(want, "rangeindex:") {
									offset = -1
								} else {
									offset = 1
								}
							}
						}
					}
				}
				if alt != nil {
					st.ctx.note("contract name %q in %s bound by definition (%s) to variable %q (see /verif/bindings.json)", name, funcKey(fr.fn), want, alt.Comment)
					best = alt
				}
			}
		}
		if best == nil {
			return Val{}, false
		}
		if env.boundNames == nil {
			env.boundNames = map[string]string{}
		}
		env.boundNames[name] = best.Comment
		pv := fr.regs[best]
		if pv.P == nil {
			return Val{}, false
		}
		if pv.P.Kind == pkCell {
			if _, live := st.cells[pv.P.Cell]; !live {
				return Val{}, false
			}
		}
		if eng.recording != nil {
			if fp := eng.allocFingerprints(fr.fn)[best]; fp != "" {
				eng.recordBinding(fr.fn, env.clause, name, fp+"|"+tname(best))
			}
		}
		v := st.loadQuiet(pv.P, nil)
		if offset != 0 && len(v.L) == 1 && v.L[0].Sort == SInt {
			v = Val{T: v.T, L: []Term{Add(v.L[0], I(offset))}}
		}
		return v, true
	}
}

func (st *State) specEnv(what string) *SpecEnv {
	fr := st.fr
	env := &SpecEnv{st: st, old: st.entry, vars: map[string]Val{}, fn: fr.fn, what: what}
	if fr.fn.Pkg != nil {
		env.pkg = fr.fn.Pkg.Pkg
	} else if p := funcPkgPath(fr.fn); p != "" {
		if sp := st.ctx.eng.pkgByPath(p); sp != nil {
			env.pkg = sp.Pkg
		}
	}
	// In pre/postconditions a parameter name means its entry value; inside the
	// body (invariants, hooks, iteration clauses) it means the current value of
	// the parameter variable, and old(p) the entry value.
	env.entryParams = map[string]Val{}
	bodyCtx := what == "invariant" || what == "hook" || what == "decreases" || strings.HasPrefix(what, "iteration") || what == "allocbound"
	for i, p := range fr.fn.Params {
		if i < len(fr.params) {
			env.entryParams[p.Name()] = fr.params[i]
			if !bodyCtx {
				env.vars[p.Name()] = fr.params[i]
			}
		}
	}
	// captured variables are read through their cells (so that old(x) sees the entry value)
	env.freeVars = map[string]*PtrInfo{}
	for _, fv := range fr.fn.FreeVars {
		if r, ok := fr.regs[fv]; ok && r.P != nil {
			env.freeVars[fv.Name()] = r.P
		}
	}
	env.locals = st.localsEnv(env)
	return env
}

func (st *State) evalClause(env *SpecEnv, cl Clause) (t Term, err error) {
	defer func() {
		if r := recover(); r != nil {
			switch x := r.(type) {
			case specError:
				err = fmt.Errorf("%s:%d: %s: %s", shortFile(cl.File), cl.Line, cl.Text, x.msg)
			case unsupported:
				err = fmt.Errorf("%s:%d: %s: %s", shortFile(cl.File), cl.Line, cl.Text, x.msg)
			default:
				panic(r)
			}
		}
	}()
	env.facts = nil
	t = env.evalBool(cl.Expr)
	for _, f := range env.facts {
		st.assumeOnce(f)
	}
	return t, nil
}

func shortFile(f string) string {
	f = strings.TrimPrefix(f, repoDir+"/")
	f = strings.TrimPrefix(f, "/verif/")
	return f
}

// bindFail records a contract that does not bind to the code as a failed obligation.
func (st *State) bindFail(name string, err error) {
	st.obligeNamed(name, "bind", "", TFalse, "contract does not bind: "+err.Error())
}

func (e *Engine) enterLoop(st *State, li *loopInfo, from *ssa.BasicBlock, k cont) {
	fn := st.fr.fn
	c := st.fr.contract
	var ls *LoopSpec
	if c != nil {
		ls = c.Loops[li.ordinal]
	}
	prefix := fmt.Sprintf("%s.%s#", shortPkg(funcPkgPath(fn)), funcKey(fn))
	// 1. invariant on entry
	if ls != nil {
		for i, inv := range ls.Invariants {
			env := st.specEnv("invariant")
			env.scope = li.header
			t, err := st.evalClause(env, inv)
			name := fmt.Sprintf("%sinv-entry[loop %d]#%d", prefix, li.ordinal, i+1)
			if err != nil {
				st.bindFail(name, err)
				continue
			}
			st.obligeNamed(name, "inv-entry", st.posOf(li.header.Instrs[0]), t, inv.Text)
		}
	}
	// 2. havoc: cells stored in the loop, and heap components written by one dry run of the body
	keys, dinfo := e.dryRun(st, li)
	if st.loopEvents == nil {
		st.loopEvents = map[string]bool{}
	}
	for ev := range dinfo.events {
		st.loopEvents[ev] = true
	}
	if st.loopEvBy == nil {
		st.loopEvBy = map[string]map[string]bool{}
	}
	st.loopEvBy[fmt.Sprintf("loop*%d", li.ordinal)] = dinfo.events
	st.bumpFrontier()
	for _, a := range li.allocs {
		pv, ok := st.fr.regs[a]
		if !ok || pv.P == nil || pv.P.Kind != pkCell {
			continue
		}
		cell := st.cells[pv.P.Cell]
		if cell == nil {
			continue
		}
		var before Term
		if len(cell.L) == 1 {
			before = cell.L[0]
		}
		hv := st.freshVal(cell.T, st.ctx.freshName("hv!"+a.Comment))
		st.boundRefs(hv)
		copy(cell.L, hv.L)
		cell.P = nil
		// counters that are only ever incremented (decremented) by constants stay at or above
		// (below) their value at loop entry; wrap-around of such counters is not modelled
		if dir := monotoneCounter(li, a); dir != 0 && before.S != "" && before.Sort == SInt {
			if dir > 0 {
				st.assume(Ge(hv.L[0], before))
			} else {
				st.assume(Le(hv.L[0], before))
			}
			st.ctx.note("loop counter %s in %s is only stepped by constants: assumed not to wrap around", a.Comment, funcKey(st.fr.fn))
		}
		if a.Comment == "rangeindex" {
			// built by go/ssa: starts at -1 and is only incremented
			st.assume(And(Ge(hv.L[0], I(-1)), Le(hv.L[0], I(1<<62))))
		}
	}
	for _, key := range keys {
		rowsOnly := !dinfo.whole[key] && len(dinfo.rows[key]) > 0
		for _, r := range dinfo.rows[key] {
			if !loopInvariantRef(r, dinfo.start) {
				rowsOnly = false
			}
		}
		if rowsOnly {
			st.havocRows(key, dinfo.rows[key], dinfo.sorts[key])
		} else {
			st.havocKey(key)
		}
	}
	for g := range st.ghost {
		if st.ctx.ghostInLoop(li, g) || dinfo.ghosts[g] {
			old := st.ghost[g]
			st.ghost[g] = st.freshValLike(old, "hv!ghost!"+g)
		}
	}
	st.event(fmt.Sprintf("loop*%d", li.ordinal), token.NoPos, st.frontierTerm())
	// 3. assume invariant
	if ls != nil {
		for _, inv := range ls.Invariants {
			env := st.specEnv("invariant")
			env.scope = li.header
			t, err := st.evalClause(env, inv)
			if err == nil {
				st.assume(t)
			}
		}
	}
	if ls != nil {
		for _, g := range ls.IterGhosts {
			env := st.specEnv("iteration ghost")
			env.scope = li.header
			func() {
				defer func() {
					if r := recover(); r != nil {
						if se, ok := r.(specError); ok {
							st.bindFail(fmt.Sprintf("%sghost[loop %d %s]", prefix, li.ordinal, g.Name), fmt.Errorf("%s", se.msg))
							return
						}
						panic(r)
					}
				}()
				st.ghost["$iter$"+g.Name] = env.eval(g.Init.Expr)
				st.ghost[g.Name] = st.ghost["$iter$"+g.Name]
			}()
		}
	}
	st.fr.active[li.header] = true
	// decreases: remember the measure at the loop head
	if ls != nil && ls.Decreases != nil {
		env := st.specEnv("decreases")
		env.scope = li.header
		func() {
			defer func() {
				if r := recover(); r != nil {
					if _, ok := r.(specError); ok {
						return
					}
					panic(r)
				}
			}()
			v := env.eval(ls.Decreases.Expr)
			st.ghost[fmt.Sprintf("$measure%d", li.ordinal)] = intVal(v.term())
		}()
	}
	e.execFrom(st, li.header, 0, from, k)
}

// ghostInLoop: a ghost variable is havocked at a loop head only if a hook
// inside the loop body assigns it.
func (c *Ctx) ghostInLoop(li *loopInfo, g string) bool {
	if strings.HasPrefix(g, "$visited!") || strings.HasPrefix(g, "$vset!") {
		g = "$visited!" + g[strings.Index(g, "!")+1:]
		for b := range li.body {
			for _, in := range b.Instrs {
				if nx, ok := in.(*ssa.Next); ok {
					if rg, ok := nx.Iter.(*ssa.Range); ok && "$visited!"+subjectOf(rg.X) == g {
						return true
					}
				}
			}
		}
		return false
	}
	if strings.HasPrefix(g, "$") {
		return false
	}
	ct := c.contract
	if ct == nil {
		return false
	}
	for b := range li.body {
		for _, in := range b.Instrs {
			ci, ok := in.(ssa.CallInstruction)
			if !ok {
				continue
			}
			name := c.oblName(in, "call")
			ord := name[strings.LastIndex(name, "#")+1:]
			callee := calleeName(ci.Common())
			keys := []string{callee + "#" + ord, callee}
			if q := qualifiedCalleeOf(ci.Common()); q != "" {
				keys = append(keys, q)
				for k := range ct.Hooks {
					if strings.HasPrefix(k, q+"#") {
						keys = append(keys, k)
					}
				}
			}
			for _, key := range keys {
				for _, h := range ct.Hooks[key] {
					if h.Kind == "ghost" && h.Var == g {
						return true
					}
				}
			}
		}
	}
	return false
}

func (st *State) freshValLike(old Val, prefix string) Val {
	if old.T != nil && len(leavesOf(old.T)) == len(old.L) {
		if b, ok := old.T.(*types.Basic); !ok || b.Info()&types.IsUntyped == 0 {
			return st.freshVal(old.T, st.ctx.freshName(prefix))
		}
	}
	v := Val{T: old.T, L: make([]Term, len(old.L))}
	for i, l := range old.L {
		v.L[i] = st.ctx.freshConst(prefix, l.Sort)
	}
	return v
}

func (e *Engine) backEdge(st *State, li *loopInfo, from *ssa.BasicBlock) {
	fn := st.fr.fn
	if st.dry == nil && fn == st.ctx.fn {
		// vacuity guard: some path that goes round the loop must be satisfiable
		st.ctx.loopCovers[li.ordinal] = append(st.ctx.loopCovers[li.ordinal],
			&Obligation{Name: fmt.Sprintf("%s#cover[loop %d]", funcKey(fn), li.ordinal), Kind: "cover", Decls: len(st.ctx.decls), Asserts: st.pc, Goal: TFalse, Cover: true})
	}
	c := st.fr.contract
	var ls *LoopSpec
	if c != nil {
		ls = c.Loops[li.ordinal]
	}
	if ls == nil {
		return
	}
	prefix := fmt.Sprintf("%s.%s#", shortPkg(funcPkgPath(fn)), funcKey(fn))
	for i, inv := range ls.Invariants {
		env := st.specEnv("invariant")
		env.scope = li.header
		t, err := st.evalClause(env, inv)
		name := fmt.Sprintf("%sinv-pres[loop %d]#%d", prefix, li.ordinal, i+1)
		if err != nil {
			st.bindFail(name, err)
			continue
		}
		st.obligeNamed(name, "inv-pres", st.posOf(li.header.Instrs[0]), t, inv.Text)
	}
	for i, ie := range ls.IterEnsures {
		env := st.specEnv("iteration ensures")
		// evaluated where the iteration ends: the body's own variables are in scope
		env.scope = li.header
		if from != nil {
			env.scope = from
		}
		env.loopOrd = li.ordinal
		t, err := st.evalClause(env, ie)
		name := fmt.Sprintf("%siter[loop %d]#%d", prefix, li.ordinal, i+1)
		if err != nil {
			st.bindFail(name, err)
			continue
		}
		st.obligeNamed(name, "iter", st.posOf(li.header.Instrs[0]), t, "every iteration: "+ie.Text)
	}
	if ls.Decreases != nil {
		if m0, ok := st.ghost[fmt.Sprintf("$measure%d", li.ordinal)]; ok {
			env := st.specEnv("decreases")
			env.scope = li.header
			name := fmt.Sprintf("%sdecreases[loop %d]", prefix, li.ordinal)
			func() {
				defer func() {
					if r := recover(); r != nil {
						if se, ok := r.(specError); ok {
							st.bindFail(name, fmt.Errorf("%s", se.msg))
							return
						}
						panic(r)
					}
				}()
				v := env.eval(ls.Decreases.Expr)
				st.obligeNamed(name, "decreases", st.posOf(li.header.Instrs[0]),
					And(Ge(m0.term(), I(0)), Lt(v.term(), m0.term())), ls.Decreases.Text)
			}()
		}
	}
}

// dryRun executes the loop body once without emitting obligations, to collect
// the heap components the body may write.
func (e *Engine) dryRun(st *State, li *loopInfo) ([]string, *dryInfo) {
	d := st.clone()
	d.dry = &dryInfo{keys: map[string]bool{}, loop: li, fr: st.fr.fn, rows: map[string][]Term{}, whole: map[string]bool{}, sorts: map[string]string{}, ghosts: map[string]bool{}, events: map[string]bool{}, start: st.ctx.fresh}
	info := d.dry
	// havoc stored cells first so that constant folding cannot hide a branch
	for _, a := range li.allocs {
		pv, ok := d.fr.regs[a]
		if !ok || pv.P == nil || pv.P.Kind != pkCell {
			continue
		}
		cell := d.cells[pv.P.Cell]
		if cell == nil {
			continue
		}
		hv := d.freshVal(cell.T, d.ctx.freshName("dry!"+a.Comment))
		copy(cell.L, hv.L)
		if a.Comment == "rangeindex" {
			d.assume(And(Ge(hv.L[0], I(-1)), Le(hv.L[0], I(1<<62))))
		}
	}
	d.fr.active[li.header] = true
	savedPaths := st.ctx.paths
	func() {
		defer func() {
			if r := recover(); r != nil {
				if u, ok := r.(unsupported); ok {
					panic(unsupported{"in loop body (dry run): " + u.msg})
				}
				panic(r)
			}
		}()
		e.execFrom(d, li.header, 0, nil, func(*State, []Val) {})
	}()
	st.ctx.paths = savedPaths
	var keys []string
	for k := range info.keys {
		keys = append(keys, k)
	}
	sort.Strings(keys)
	if st.dry != nil {
		for g := range info.ghosts {
			st.dry.ghosts[g] = true
		}
		for ev := range info.events {
			st.dry.events[ev] = true
		}
		for _, k := range keys {
			st.dry.keys[k] = true
			if info.whole[k] {
				st.dry.whole[k] = true
			}
			st.dry.rows[k] = append(st.dry.rows[k], info.rows[k]...)
			if info.sorts[k] != "" {
				st.dry.sorts[k] = info.sorts[k]
			}
		}
	}
	return keys, info
}

// ---------------------------------------------------------------------------
// control flow

func (e *Engine) jump(st *State, from, to *ssa.BasicBlock, k cont) {
	if st.dead {
		return
	}
	if st.dry != nil && st.dry.loop != nil && st.dry.fr == st.fr.fn && !st.dry.loop.body[to] {
		return // the dry run only covers the loop body
	}
	loops := e.loopsOf(st.fr.fn)
	// a loop declared exhaustive is left only through its header (or by returning): a jump from
	// inside its body to the header's exit block is a break
	if c := st.fr.contract; c != nil && st.dry == nil {
		for _, li := range loops {
			ls := c.Loops[li.ordinal]
			// "inside the loop": dominated by the header and not yet past the loop's exit block (a block
			// whose every path leaves the loop is not part of the natural loop body, but a jump from it
			// to the exit block is still a break)
			if ls == nil || !ls.Exhaustive || from == li.header || li.body[to] || !li.header.Dominates(from) || to.Dominates(from) {
				continue
			}
			for _, ex := range li.header.Succs {
				if ex == to && !li.body[ex] {
					name := fmt.Sprintf("%s.%s#exhaustive[loop %d]", shortPkg(funcPkgPath(st.fr.fn)), funcKey(st.fr.fn), li.ordinal)
					st.obligeNamed(name, "exhaustive", st.posOf(from.Instrs[len(from.Instrs)-1]), TFalse, fmt.Sprintf("loop %d is left only when its range is exhausted (no break)", li.ordinal))
					if st.dead {
						return
					}
				}
			}
		}
	}
	// leaving loops
	for h := range st.fr.active {
		if li := loops[h]; li != nil && !li.body[to] {
			delete(st.fr.active, h)
		}
	}
	if li, ok := loops[to]; ok {
		if st.fr.active[to] {
			e.backEdge(st, li, from)
			return // path ends at the cut point
		}
		e.enterLoop(st, li, from, k)
		return
	}
	e.execFrom(st, to, 0, from, k)
}

func (e *Engine) fork(st *State, cond Term, thenF, elseF func(*State)) {
	if cond.IsTrue() {
		thenF(st)
		return
	}
	if cond.IsFalse() {
		elseF(st)
		return
	}
	st.ctx.paths++
	if st.ctx.forkHist != nil {
		st.ctx.forkHist[st.lastPos]++
	}
	if st.ctx.paths > st.ctx.maxPaths {
		if st.ctx.forkHist != nil {
			type kv struct {
				k string
				v int
			}
			var xs []kv
			for k, v := range st.ctx.forkHist {
				xs = append(xs, kv{k, v})
			}
			sort.Slice(xs, func(i, j int) bool { return xs[i].v > xs[j].v })
			for i, x := range xs {
				if i < 25 {
					fmt.Fprintf(os.Stderr, "fork %5d at %s\n", x.v, x.k)
				}
			}
		}
		unsup("more than %d paths", st.ctx.maxPaths)
	}
	s2 := st.clone()
	st.ctx.pathSeq++
	s2.pathID = st.ctx.pathSeq
	st.assume(cond)
	thenF(st)
	s2.assume(Not(cond))
	elseF(s2)
}

func (e *Engine) execFrom(st *State, b *ssa.BasicBlock, start int, prev *ssa.BasicBlock, k cont) {
	if st.dead {
		return
	}
	for i := start; i < len(b.Instrs); i++ {
		next := i + 1
		if st.ctx.forkHist != nil {
			if p := st.posOf(b.Instrs[i]); p != "" {
				st.lastPos = p
			}
		}
		switch in := b.Instrs[i].(type) {
		case *ssa.Phi:
			idx := -1
			for j, p := range b.Preds {
				if p == prev {
					idx = j
				}
			}
			if idx < 0 {
				unsup("phi without known predecessor")
			}
			st.set(in, st.get(in.Edges[idx]))
		case *ssa.Jump:
			e.jump(st, b, b.Succs[0], k)
			return
		case *ssa.If:
			c := st.get(in.Cond).term()
			e.fork(st, c,
				func(s *State) { e.jump(s, b, b.Succs[0], k) },
				func(s *State) { e.jump(s, b, b.Succs[1], k) })
			return
		case *ssa.Return:
			var res []Val
			for _, r := range in.Results {
				res = append(res, st.get(r))
			}
			st.lastReturn = in
			k(st, res)
			return
		case *ssa.Panic:
			if c := st.fr.contract; c == nil || !c.MayPanic {
				st.oblige(in, "panic", TFalse, "explicit panic is unreachable")
			}
			return
		case *ssa.Call:
			e.doCall(st, in, &in.Call, func(s *State, r Val) {
				s.set(in, r)
				e.execFrom(s, b, next, prev, k)
			})
			return
		case *ssa.Go:
			e.doGo(st, in)
		case *ssa.Defer:
			e.doDefer(st, in)
		case *ssa.RunDefers:
			e.runDefers(st, func(s *State) { e.execFrom(s, b, next, prev, k) })
			return
		case *ssa.Select:
			e.doSelect(st, in, func(s *State) { e.execFrom(s, b, next, prev, k) })
			return
		case *ssa.Next:
			e.doNext(st, in, func(s *State) { e.execFrom(s, b, next, prev, k) })
			return
		case *ssa.TypeAssert:
			if e.doTypeAssert(st, in, func(s *State) { e.execFrom(s, b, next, prev, k) }) {
				return
			}
		default:
			e.step(st, b.Instrs[i])
			if st.dead {
				return
			}
		}
	}
}

// ---------------------------------------------------------------------------
// straight-line instructions

func (st *State) nilCheck(in ssa.Instruction, p *PtrInfo) {
	if p.Kind != pkHeap {
		return
	}
	if n, ok := p.Ref.IntLit(); ok && n.Sign() != 0 {
		return
	}
	if strings.HasPrefix(p.Ref.S, "(+ A0 ") {
		return
	}
	st.oblige(in, "nil", Ne(p.Ref, I(0)), "nil dereference of "+instrSubject(in, "nil"))
}

// protectCheck: a field declared `protects T.mu: f` is only accessed while mu
// of the same object is held (objects allocated by this invocation are exempt).
func (st *State) protectCheck(in ssa.Instruction, p *PtrInfo) {
	if p.Kind != pkHeap || len(p.Path) == 0 || isFreshRef(p.Ref) || len(st.ctx.eng.specs.Protects) == 0 {
		return
	}
	pk, tn := namedOrigin(p.Root)
	if tn == "" {
		return
	}
	sst, ok := p.Root.Underlying().(*types.Struct)
	if !ok {
		return
	}
	fname := sst.Field(p.Path[0]).Name()
	mu, ok := st.ctx.eng.specs.Protects[pk+"."+tn+"."+fname]
	if !ok {
		return
	}
	for i := 0; i < sst.NumFields(); i++ {
		if sst.Field(i).Name() == mu {
			mp := &PtrInfo{Kind: pkHeap, Root: p.Root, Ref: p.Ref, Path: []int{i}}
			mv := st.loadQuiet(mp, nil)
			a0 := Term{"A0", SInt}
			heldT := mv.L[0]
			if _, isCh := sst.Field(i).Type().Underlying().(*types.Chan); isCh {
				heldT = Select(st.heapTerm("CH#held", SBool, false), mv.L[0])
			} else if _, isPtr := sst.Field(i).Type().Underlying().(*types.Pointer); isPtr && mv.P != nil {
				// the lock is reached through a pointer field (*sync.Mutex / *sync.RWMutex)
				lv := st.loadQuiet(mv.P, nil)
				heldT = lv.L[0]
				if len(lv.L) == 2 && lv.L[1].Sort == SInt {
					heldT = Or(lv.L[0], Gt(lv.L[1], I(0)))
				}
			}
			st.oblige(in, "protect", Or(heldT, Gt(p.Ref, a0)), fmt.Sprintf("%s.%s is accessed only while %s is held", tn, fname, mu))
			return
		}
	}
}

func (e *Engine) step(st *State, instr ssa.Instruction) {
	switch in := instr.(type) {
	case *ssa.DebugRef:
	case *ssa.Alloc:
		e.doAlloc(st, in)
	case *ssa.Store:
		addr := st.get(in.Addr)
		if addr.P == nil {
			unsup("store through unstructured pointer")
		}
		st.nilCheck(in, addr.P)
		st.protectCheck(in, addr.P)
		v := st.get(in.Val)
		st.storeVal(in, addr.P, v)
	case *ssa.UnOp:
		e.doUnOp(st, in)
	case *ssa.BinOp:
		st.set(in, e.binop(st, in, in.Op, st.get(in.X), st.get(in.Y), in.Type()))
	case *ssa.FieldAddr:
		x := st.get(in.X)
		if x.P == nil {
			unsup("fieldaddr on unstructured pointer")
		}
		st.nilCheck(in, x.P)
		np := *x.P
		np.Path = append(append([]int(nil), x.P.Path...), in.Field)
		st.set(in, Val{T: in.Type(), L: []Term{x.L[0]}, P: &np})
	case *ssa.Field:
		x := st.get(in.X)
		off, n := fieldRange(x.T, in.Field)
		v := Val{T: in.Type(), L: x.L[off : off+n]}
		st.decorate(&v)
		st.set(in, v)
	case *ssa.IndexAddr:
		e.doIndexAddr(st, in)
	case *ssa.Index:
		x := st.get(in.X)
		idx := st.get(in.Index).term()
		if isString(x.T) {
			st.oblige(in, "index", And(Le(I(0), idx), Lt(idx, st.strLen(x.L[0]))), "string index in range")
			f := st.ctx.declareFun("strbyte", []string{SInt, SInt}, SInt)
			t := Term{fmt.Sprintf("(%s %s %s)", f, x.L[0].S, idx.S), SInt}
			st.assume(And(Le(I(0), t), Le(t, I(255))))
			st.set(in, scalar(in.Type(), t))
			return
		}
		unsup("index on array value")
	case *ssa.Slice:
		e.doSlice(st, in)
	case *ssa.MakeSlice:
		ln := st.get(in.Len).term()
		cp := st.get(in.Cap).term()
		st.oblige(in, "makeslice", And(Le(I(0), ln), Le(ln, cp), Le(cp, I(maxElemsOf(in.Type())))), "make: 0 <= len <= cap and the size is allocatable")
		e.hookAllocBound(st, in, ln, cp)
		ref := st.newRef()
		elem := in.Type().Underlying().(*types.Slice).Elem()
		st.zeroElems(elem, ref)
		st.set(in, Val{T: in.Type(), L: []Term{ref, I(0), ln, cp}})
	case *ssa.MakeMap:
		ref := st.newRef()
		dk, _ := mapKeys(in.Type())
		dh := st.heapTerm(dk, SBool, true)
		st.setHeap(dk, Store(dh, ref, Term{"((as const (Array Int Bool)) false)", arrSort(SBool)}))
		ck := "MC#" + typeKey(in.Type().Underlying())
		ch := st.heapTerm(ck, SInt, false)
		st.setHeap(ck, Store(ch, ref, I(0)))
		st.set(in, Val{T: in.Type(), L: []Term{ref}})
	case *ssa.MakeChan:
		ref := st.newRef()
		h := st.heapTerm(closedKey(in.Type()), SBool, false)
		st.setHeap(closedKey(in.Type()), Store(h, ref, TFalse))
		hc := st.heapTerm("CH#cap", SInt, false)
		st.setHeap("CH#cap", Store(hc, ref, st.get(in.Size).term()))
		hl := st.heapTerm("CH#held", SBool, false)
		st.setHeap("CH#held", Store(hl, ref, TFalse))
		st.set(in, Val{T: in.Type(), L: []Term{ref}})
	case *ssa.MakeClosure:
		fn := in.Fn.(*ssa.Function)
		cl := &Closure{Fn: fn}
		for _, b := range in.Bindings {
			cl.Bind = append(cl.Bind, st.get(b))
		}
		st.ctx.closureN++
		id := I(int64(-1000000 - st.ctx.closureN))
		st.ctx.closures[id.S] = cl
		st.set(in, Val{T: in.Type(), L: []Term{id}, C: cl})
	case *ssa.MakeInterface:
		st.set(in, st.makeIface(in.Type(), st.get(in.X)))
	case *ssa.ChangeInterface:
		x := st.get(in.X)
		st.set(in, Val{T: in.Type(), L: x.L})
	case *ssa.ChangeType:
		x := st.get(in.X)
		st.set(in, Val{T: in.Type(), L: x.L, P: x.P, C: x.C})
	case *ssa.Convert:
		e.doConvert(st, in)
	case *ssa.Extract:
		t := st.get(in.Tuple)
		if in.Index >= len(t.Tup) {
			unsup("extract %d of %d-tuple", in.Index, len(t.Tup))
		}
		st.set(in, t.Tup[in.Index])
	case *ssa.Lookup:
		x := st.get(in.X)
		if isString(x.T) {
			idx := st.get(in.Index).term()
			st.oblige(in, "index", And(Le(I(0), idx), Lt(idx, st.strLen(x.L[0]))), "string index in range")
			f := st.ctx.declareFun("strbyte", []string{SInt, SInt}, SInt)
			t := Term{fmt.Sprintf("(%s %s %s)", f, x.L[0].S, idx.S), SInt}
			st.assume(And(Le(I(0), t), Le(t, I(255))))
			st.set(in, scalar(in.Type(), t))
			return
		}
		r := st.mapLookup(x, st.get(in.Index), in.CommaOk, nil)
		if in.CommaOk {
			r.T = in.Type()
		}
		st.set(in, r)
	case *ssa.MapUpdate:
		m := st.get(in.Map)
		st.oblige(in, "nilmap", Ne(m.L[0], I(0)), "assignment to entry in nil map")
		st.frameCheckMap(in, m)
		st.mapUpdate(m, st.get(in.Key), st.get(in.Value))
	case *ssa.Range:
		x := st.get(in.X)
		if _, ok := x.T.Underlying().(*types.Map); !ok {
			unsup("range over %s", x.T)
		}
		st.fr.regs[in] = Val{T: x.T, L: x.L}
		// number of keys handed out so far by this iteration (see doNext)
		st.ghost["$visited!"+subjectOf(in.X)] = intVal(I(0))
		// the set of keys handed out so far, and the key set the iteration started with
		st.ghost["$vset!"+subjectOf(in.X)] = Val{L: []Term{{"((as const (Array Int Bool)) false)", arrSort(SBool)}}}
		st.ghost["$vdom!"+subjectOf(in.X)] = Val{L: []Term{st.mapDom(x)}}
	case *ssa.Send:
		e.doSend(st, in, st.get(in.Chan), st.get(in.X))
	case *ssa.SliceToArrayPointer:
		unsup("slice to array pointer")
	default:
		unsup("instruction %T", instr)
	}
}

func (st *State) zeroElems(elem types.Type, ref Term) {
	for _, l := range leavesOf(elem) {
		key := elemKey(elem, l.Path)
		h := st.heapTerm(key, l.Sort, true)
		z := "0"
		if l.Sort == SBool {
			z = "false"
		}
		st.setHeap(key, Store(h, ref, Term{fmt.Sprintf("((as const %s) %s)", arrSort(l.Sort), z), arrSort(l.Sort)}))
	}
}

func (st *State) storeVal(in ssa.Instruction, p *PtrInfo, v Val) {
	if v.C != nil && len(v.L) == 1 {
		st.ctx.closures[v.L[0].S] = v.C
	}
	if p.Kind != pkCell {
		st.frameCheck(in, p)
	}
	st.storePtr(p, v)
}

func (e *Engine) doAlloc(st *State, in *ssa.Alloc) {
	elem := in.Type().Underlying().(*types.Pointer).Elem()
	if arr, ok := elem.Underlying().(*types.Array); ok {
		ref := st.newRef()
		st.zeroElems(arr.Elem(), ref)
		st.set(in, Val{T: in.Type(), L: []Term{ref}, P: &PtrInfo{Kind: pkHeap, Root: elem, Ref: ref}})
		return
	}
	if !in.Heap {
		id := st.newCell(elem)
		addr := I(int64(-1000000000 - id))
		st.set(in, Val{T: in.Type(), L: []Term{addr}, P: &PtrInfo{Kind: pkCell, Root: elem, Cell: id}})
		st.zeroGhost(elem, addr)
		return
	}
	ref := st.newRef()
	p := &PtrInfo{Kind: pkHeap, Root: elem, Ref: ref}
	st.storePtr(p, zeroVal(elem))
	st.set(in, Val{T: in.Type(), L: []Term{ref}, P: p})
	st.zeroGhost(elem, ref)
}

// zeroGhost initialises the ghost state of a freshly declared library object
// (a zero bytes.Buffer is empty).
func (st *State) zeroGhost(elem types.Type, addr Term) {
	if pk, n := namedOrigin(elem); pk == "bytes" && n == "Buffer" {
		h := st.heapTerm("G#buf", SInt, false)
		st.setHeap("G#buf", Store(h, addr, st.bempty()))
		h2 := st.heapTerm("G#avail", SInt, false)
		st.setHeap("G#avail", Store(h2, addr, I(0)))
	}
}

func (e *Engine) doUnOp(st *State, in *ssa.UnOp) {
	x := st.get(in.X)
	switch in.Op {
	case token.MUL:
		if x.P == nil {
			unsup("load through unstructured pointer %s", in.X.Name())
		}
		if _, isArr := in.Type().Underlying().(*types.Array); isArr {
			// array value: its identity is the backing object (copy semantics are not modelled)
			if x.P.Kind == pkHeap && len(x.P.Path) == 0 {
				st.set(in, Val{T: in.Type(), L: []Term{x.P.Ref}})
				return
			}
			unsup("array value load")
		}
		st.nilCheck(in, x.P)
		st.protectCheck(in, x.P)
		st.set(in, st.loadPtr(x.P))
	case token.NOT:
		st.set(in, scalar(in.Type(), Not(x.term())))
	case token.SUB:
		st.set(in, scalar(in.Type(), wrapTo(in.Type(), Neg(x.term()), false)))
	case token.XOR:
		f := st.ctx.declareFun("bitnot", []string{SInt}, SInt)
		t := Term{fmt.Sprintf("(%s %s)", f, x.term().S), SInt}
		v := scalar(in.Type(), t)
		st.addFacts(v)
		st.set(in, v)
	case token.ARROW:
		e.doRecv(st, in, x)
	default:
		unsup("unop %s", in.Op)
	}
}

// elemAddr: the (non-nil) address of a slice element as a term, so that such
// pointers compare by (array, index).
func (st *State) elemAddr(p *PtrInfo) Term {
	f := st.ctx.declareFun("elemaddr", []string{SInt, SInt}, SInt)
	t := Term{fmt.Sprintf("(%s %s %s)", f, p.Ref.S, p.Idx.S), SInt}
	st.assumeOnce(Lt(t, I(-2000000000)))
	return t
}

func (e *Engine) doIndexAddr(st *State, in *ssa.IndexAddr) {
	x := st.get(in.X)
	idx := st.get(in.Index).term()
	switch u := x.T.Underlying().(type) {
	case *types.Slice:
		st.oblige(in, "index", And(Le(I(0), idx), Lt(idx, x.L[2])), fmt.Sprintf("index of %s in range", instrSubject(in, "index")))
		p := &PtrInfo{Kind: pkElem, Root: u.Elem(), Ref: x.L[0], Idx: Add(x.L[1], idx)}
		st.set(in, Val{T: in.Type(), L: []Term{st.elemAddr(p)}, P: p})
	case *types.Pointer:
		arr := u.Elem().Underlying().(*types.Array)
		st.oblige(in, "index", And(Le(I(0), idx), Lt(idx, I(arr.Len()))), "array index in range")
		if x.P == nil || x.P.Kind != pkHeap || len(x.P.Path) != 0 {
			unsup("index into embedded array")
		}
		p := &PtrInfo{Kind: pkElem, Root: arr.Elem(), Ref: x.P.Ref, Idx: idx}
		st.set(in, Val{T: in.Type(), L: []Term{st.elemAddr(p)}, P: p})
	default:
		unsup("indexaddr on %s", x.T)
	}
}

func (e *Engine) doSlice(st *State, in *ssa.Slice) {
	x := st.get(in.X)
	var lo, hi, mx Term
	has := func(v ssa.Value) bool { return v != nil }
	switch u := x.T.Underlying().(type) {
	case *types.Slice:
		lo = I(0)
		hi = x.L[2]
		capv := x.L[3]
		mx = capv
		if has(in.Low) {
			lo = st.get(in.Low).term()
		}
		if has(in.High) {
			hi = st.get(in.High).term()
		}
		if has(in.Max) {
			mx = st.get(in.Max).term()
		}
		st.oblige(in, "slice", And(Le(I(0), lo), Le(lo, hi), Le(hi, mx), Le(mx, capv)),
			fmt.Sprintf("slice bounds of %s in range", instrSubject(in, "slice")))
		res := Val{T: in.Type(), L: []Term{x.L[0], Add(x.L[1], lo), Sub(hi, lo), Sub(mx, lo)}}
		if els := leavesOfSafe(u.Elem()); len(els) == 1 && els[0].Sort == SInt && isByteLike(u.Elem()) {
			// content of a sub-slice is the sub-sequence of the content (when within len)
			st.assume(Implies(Le(hi, x.L[2]), Eq(st.bytesOf(res), st.bsub(st.bytesOf(x), lo, hi))))
		}
		st.set(in, res)
	case *types.Basic:
		if !isString(x.T) {
			unsup("slice of %s", x.T)
		}
		ln := st.strLen(x.L[0])
		lo, hi = I(0), ln
		if has(in.Low) {
			lo = st.get(in.Low).term()
		}
		if has(in.High) {
			hi = st.get(in.High).term()
		}
		st.oblige(in, "slice", And(Le(I(0), lo), Le(lo, hi), Le(hi, ln)), "string slice bounds in range")
		f := st.ctx.declareFun("substr", []string{SInt, SInt, SInt}, SInt)
		t := Term{fmt.Sprintf("(%s %s %s %s)", f, x.L[0].S, lo.S, hi.S), SInt}
		st.assume(Eq(st.strLen(t), Sub(hi, lo)))
		st.assume(Implies(And(Eq(lo, I(0)), Eq(hi, ln)), Eq(t, x.L[0])))
		st.set(in, scalar(in.Type(), t))
	case *types.Pointer:
		arr, ok := u.Elem().Underlying().(*types.Array)
		if !ok {
			unsup("slice of pointer to %s", u.Elem())
		}
		n := I(arr.Len())
		lo, hi, mx = I(0), n, n
		if has(in.Low) {
			lo = st.get(in.Low).term()
		}
		if has(in.High) {
			hi = st.get(in.High).term()
		}
		if has(in.Max) {
			mx = st.get(in.Max).term()
		}
		st.oblige(in, "slice", And(Le(I(0), lo), Le(lo, hi), Le(hi, mx), Le(mx, n)), "array slice bounds in range")
		if x.P == nil || x.P.Kind != pkHeap || len(x.P.Path) != 0 {
			unsup("slice of embedded array")
		}
		st.set(in, Val{T: in.Type(), L: []Term{x.P.Ref, lo, Sub(hi, lo), Sub(mx, lo)}})
	default:
		unsup("slice of %s", x.T)
	}
}

func (e *Engine) binop(st *State, in ssa.Instruction, op token.Token, x, y Val, rt types.Type) Val {
	switch op {
	case token.EQL, token.NEQ:
		var t Term
		if len(x.L) != len(y.L) {
			unsup("comparison of differently shaped values")
		}
		if _, ok := x.T.Underlying().(*types.Slice); ok {
			t = Eq(x.L[0], y.L[0]) // only comparison with nil is legal in Go
		} else if _, ok := x.T.Underlying().(*types.Interface); ok {
			t = And(Eq(x.L[0], y.L[0]), Or(Eq(x.L[0], I(0)), Eq(x.L[1], y.L[1])))
		} else {
			var cs []Term
			for i := range x.L {
				cs = append(cs, Eq(x.L[i], y.L[i]))
			}
			t = And(cs...)
			if x.P != nil && y.P != nil && (x.P.Kind == pkCell || y.P.Kind == pkCell) {
				t = B(x.P.Kind == y.P.Kind && x.P.Cell == y.P.Cell && fmt.Sprint(x.P.Path) == fmt.Sprint(y.P.Path))
			}
		}
		if op == token.NEQ {
			t = Not(t)
		}
		return scalar(rt, t)
	}
	if isString(x.T) {
		switch op {
		case token.ADD:
			f := st.ctx.declareFun("strcat", []string{SInt, SInt}, SInt)
			t := Term{fmt.Sprintf("(%s %s %s)", f, x.term().S, y.term().S), SInt}
			st.assume(Eq(st.strLen(t), Add(st.strLen(x.term()), st.strLen(y.term()))))
			st.assume(Implies(Eq(y.term(), I(0)), Eq(t, x.term())))
			st.assume(Implies(Eq(x.term(), I(0)), Eq(t, y.term())))
			return scalar(rt, t)
		case token.LSS, token.LEQ, token.GTR, token.GEQ:
			f := st.ctx.declareFun("strcmp", []string{SInt, SInt}, SInt)
			c := Term{fmt.Sprintf("(%s %s %s)", f, x.term().S, y.term().S), SInt}
			st.assume(Eq(Eq(c, I(0)), Eq(x.term(), y.term())))
			switch op {
			case token.LSS:
				return scalar(rt, Lt(c, I(0)))
			case token.LEQ:
				return scalar(rt, Le(c, I(0)))
			case token.GTR:
				return scalar(rt, Gt(c, I(0)))
			default:
				return scalar(rt, Ge(c, I(0)))
			}
		}
		unsup("string operator %s", op)
	}
	a, b := x.term(), y.term()
	switch op {
	case token.LSS:
		return scalar(rt, Lt(a, b))
	case token.LEQ:
		return scalar(rt, Le(a, b))
	case token.GTR:
		return scalar(rt, Gt(a, b))
	case token.GEQ:
		return scalar(rt, Ge(a, b))
	case token.ADD:
		return scalar(rt, st.named(wrapTo(rt, Add(a, b), false)))
	case token.SUB:
		return scalar(rt, st.named(wrapTo(rt, Sub(a, b), false)))
	case token.MUL:
		return scalar(rt, st.named(wrapTo(rt, Mul(a, b), true)))
	case token.QUO, token.REM:
		st.oblige(in, "div", Ne(b, I(0)), "division by zero")
		// Go truncates toward zero
		q := Ite(Ge(a, I(0)),
			Ite(Gt(b, I(0)), app(SInt, "div", a, b), Neg(app(SInt, "div", a, Neg(b)))),
			Ite(Gt(b, I(0)), Neg(app(SInt, "div", Neg(a), b)), app(SInt, "div", Neg(a), Neg(b))))
		if op == token.QUO {
			return scalar(rt, st.named(wrapTo(rt, q, false)))
		}
		return scalar(rt, st.named(Sub(a, Mul(b, q))))
	case token.LAND, token.LOR:
		unsup("unexpected logical operator in SSA")
	case token.AND, token.OR, token.XOR, token.SHL, token.SHR, token.AND_NOT:
		if a.Sort == SBool {
			switch op {
			case token.AND:
				return scalar(rt, And(a, b))
			case token.OR:
				return scalar(rt, Or(a, b))
			}
		}
		// exact cases with literal operands, otherwise uninterpreted with range
		if n, ok := b.IntLit(); ok && (op == token.SHL || op == token.SHR) && n.Sign() >= 0 && n.Cmp(big.NewInt(64)) < 0 {
			p := new(big.Int).Lsh(big.NewInt(1), uint(n.Int64()))
			if op == token.SHL {
				return scalar(rt, st.named(wrapTo(rt, Mul(a, IBig(p)), true)))
			}
			return scalar(rt, st.named(app(SInt, "div", a, IBig(p)))) // floor division == arithmetic shift
		}
		if n, ok := b.IntLit(); ok && op == token.AND && n.Sign() >= 0 {
			// x & (2^k - 1) == x mod 2^k
			np1 := new(big.Int).Add(n, big.NewInt(1))
			if np1.BitLen() > 0 && new(big.Int).And(np1, n).Sign() == 0 {
				return scalar(rt, st.named(app(SInt, "mod", a, IBig(np1))))
			}
		}
		f := st.ctx.declareFun("bit!"+op.String(), []string{SInt, SInt}, SInt)
		t := Term{fmt.Sprintf("(%s %s %s)", f, a.S, b.S), SInt}
		v := scalar(rt, t)
		st.addFacts(v)
		if op == token.AND {
			if n, ok := b.IntLit(); ok && n.Sign() >= 0 {
				st.assume(And(Le(I(0), t), Le(t, b)))
			}
		}
		return v
	}
	unsup("binop %s", op)
	return Val{}
}

// named binds large terms to a fresh constant to keep queries small.
func (st *State) named(t Term) Term {
	if len(t.S) < 120 {
		return t
	}
	n := st.ctx.freshConst("t", t.Sort)
	st.assume(Eq(n, t))
	return n
}

func (e *Engine) doConvert(st *State, in *ssa.Convert) {
	x := st.get(in.X)
	from, to := x.T.Underlying(), in.Type().Underlying()
	if isInteger(from) && isInteger(to) {
		flo, fhi, _ := intRange(from)
		tlo, thi, _ := intRange(to)
		t := x.term()
		if flo != nil && tlo != nil && flo.Cmp(tlo) >= 0 && fhi.Cmp(thi) <= 0 {
			st.set(in, scalar(in.Type(), t))
			return
		}
		st.set(in, scalar(in.Type(), st.named(wrapTo(in.Type(), t, true))))
		return
	}
	_, fromSl := from.(*types.Slice)
	_, toSl := to.(*types.Slice)
	switch {
	case isString(from) && toSl:
		// []byte(s): fresh backing array whose content is determined by s
		ref := st.newRef()
		ln := st.strLen(x.L[0])
		v := Val{T: in.Type(), L: []Term{ref, I(0), ln, ln}}
		c := st.bytesOf(v)
		f := st.ctx.declareFun("str2bytes", []string{SInt}, SInt)
		st.assume(Eq(c, Term{fmt.Sprintf("(%s %s)", f, x.L[0].S), SInt}))
		st.set(in, v)
	case fromSl && isString(to):
		c := st.bytesOf(x)
		f := st.ctx.declareFun("bytes2str", []string{SInt}, SInt)
		g := st.ctx.declareFun("str2bytes", []string{SInt}, SInt)
		t := Term{fmt.Sprintf("(%s %s)", f, c.S), SInt}
		st.assume(Eq(st.strLen(t), x.L[2]))
		st.assume(Eq(Term{fmt.Sprintf("(%s %s)", g, t.S), SInt}, c))
		st.set(in, scalar(in.Type(), t))
	case isInteger(from) && isString(to):
		f := st.ctx.declareFun("rune2str", []string{SInt}, SInt)
		st.set(in, scalar(in.Type(), Term{fmt.Sprintf("(%s %s)", f, x.term().S), SInt}))
	default:
		if len(leavesOf(in.Type())) == len(x.L) {
			st.set(in, Val{T: in.Type(), L: x.L, P: x.P})
			return
		}
		unsup("convert %s -> %s", x.T, in.Type())
	}
}

// ---------------------------------------------------------------------------
// interfaces

func (st *State) makeIface(it types.Type, x Val) Val {
	if _, ok := x.T.Underlying().(*types.Interface); ok {
		return Val{T: it, L: x.L}
	}
	tag := I(st.ctx.eng.typeTag(x.T))
	var pay Term
	switch {
	case len(x.L) == 0:
		pay = I(0)
	case len(x.L) == 1 && x.L[0].Sort == SInt:
		pay = x.L[0]
		if x.P != nil && (x.P.Kind != pkHeap || len(x.P.Path) > 0) {
			unsup("interior or local pointer boxed in an interface")
		}
		if x.C != nil {
			st.ctx.closures[x.L[0].S] = x.C
		}
	case len(x.L) == 1:
		pay = Ite(x.L[0], I(1), I(0))
	default:
		var sorts []string
		for _, l := range x.L {
			sorts = append(sorts, l.Sort)
		}
		f := st.ctx.declareFun("box#"+typeKey(x.T), sorts, SInt)
		pay = app(SInt, f, x.L...)
		for i, l := range x.L {
			u := st.ctx.declareFun(fmt.Sprintf("unbox#%s#%d", typeKey(x.T), i), []string{SInt}, l.Sort)
			st.assume(Eq(Term{fmt.Sprintf("(%s %s)", u, pay.S), l.Sort}, l))
		}
	}
	return Val{T: it, L: []Term{tag, pay}}
}

func (st *State) unbox(t types.Type, pay Term) Val {
	ls := leavesOf(t)
	v := Val{T: t, L: make([]Term, len(ls))}
	switch {
	case len(ls) == 0:
	case len(ls) == 1 && ls[0].Sort == SInt:
		v.L[0] = pay
	case len(ls) == 1:
		v.L[0] = Ne(pay, I(0))
	default:
		for i, l := range ls {
			u := st.ctx.declareFun(fmt.Sprintf("unbox#%s#%d", typeKey(t), i), []string{SInt}, l.Sort)
			v.L[i] = Term{fmt.Sprintf("(%s %s)", u, pay.S), l.Sort}
		}
	}
	st.decorate(&v)
	st.addFacts(v)
	return v
}

// doTypeAssert returns true if it took over control flow.
func (e *Engine) doTypeAssert(st *State, in *ssa.TypeAssert, k func(*State)) bool {
	x := st.get(in.X)
	var ok Term
	var val Val
	if _, isIface := in.AssertedType.Underlying().(*types.Interface); isIface {
		ok = And(Ne(x.L[0], I(0)), st.implements(x.L[0], in.AssertedType, in.X.Type()))
		val = Val{T: in.AssertedType, L: x.L}
	} else {
		tag := I(st.ctx.eng.typeTag(in.AssertedType))
		ok = Eq(x.L[0], tag)
		val = st.unbox(in.AssertedType, x.L[1])
	}
	if !in.CommaOk {
		st.oblige(in, "typeassert", ok, "type assertion holds")
		st.set(in, val)
		return false
	}
	// value is the zero value when !ok
	z := zeroVal(in.AssertedType)
	if len(z.L) == len(val.L) {
		for i := range val.L {
			val.L[i] = Ite(ok, val.L[i], z.L[i])
		}
	}
	st.fr.regs[in] = Val{T: in.Type(), Tup: []Val{val, boolVal(ok)}}
	return false
}

func (st *State) implements(tag Term, iface types.Type, static types.Type) Term {
	it := iface.Underlying().(*types.Interface)
	if si, ok := static.Underlying().(*types.Interface); ok {
		if types.Implements(si, it) || it.NumMethods() == 0 {
			return TTrue
		}
	}
	if n, ok := tag.IntLit(); ok {
		if t := st.ctx.eng.typeOfTag(n.Int64()); t != nil {
			return B(types.Implements(t, it))
		}
	}
	f := st.ctx.declareFun("impl#"+typeKey(iface), []string{SInt}, SBool)
	return Term{fmt.Sprintf("(%s %s)", f, tag.S), SBool}
}

// ---------------------------------------------------------------------------
// map iteration

func (e *Engine) doNext(st *State, in *ssa.Next, k func(*State)) {
	if in.IsString {
		unsup("range over string")
	}
	m := st.get(in.Iter)
	mt := m.T.Underlying().(*types.Map)
	ok := st.ctx.freshConst("next!ok", SBool)
	key := st.freshVal(mt.Key(), st.ctx.freshName("next!k"))
	st.assume(Implies(ok, st.mapHas(m, key)))
	// a range over a map hands out each key at most once: while it goes on, fewer keys
	// have been handed out than the map holds
	if rg, isRange := in.Iter.(*ssa.Range); isRange {
		gk := "$visited!" + subjectOf(rg.X)
		if cur, has := st.ghost[gk]; has {
			st.assume(Implies(ok, Lt(cur.term(), st.mapLen(m))))
			st.ghost[gk] = intVal(st.named(Ite(ok, Add(cur.term(), I(1)), cur.term())))
		}
		sk, dk := "$vset!"+subjectOf(rg.X), "$vdom!"+subjectOf(rg.X)
		if vs, has := st.ghost[sk]; has && len(key.L) == 1 && key.L[0].Sort == SInt {
			kt := st.mapKeyTerm(m, key)
			set := vs.L[0]
			// each key is handed out at most once ...
			st.assume(Implies(ok, Not(Select(set, kt))))
			// ... and when the iteration ends over a key set that did not change, every key was handed out
			if d0, has := st.ghost[dk]; has {
				q := st.ctx.freshName("vk")
				dom := st.mapDom(m)
				all := Term{fmt.Sprintf("(forall ((%s Int)) (! (=> (select %s %s) (select %s %s)) :pattern ((select %s %s))))", q, dom.S, q, set.S, q, dom.S, q), SBool}
				st.assume(Implies(And(Not(ok), Eq(dom, d0.L[0])), all))
			}
			st.ghost[sk] = Val{L: []Term{Ite(ok, Store(set, kt, TTrue), set)}}
		}
	}
	val := st.mapLookup(m, key, false, nil)
	st.fr.regs[in] = Val{T: in.Type(), Tup: []Val{boolVal(ok), key, val}}
	k(st)
}

var _ = bytes.MinRead
