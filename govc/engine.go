package main

import (
	"crypto/sha256"
	"fmt"
	"go/types"
	"os"
	"path/filepath"
	"regexp"
	"runtime/debug"
	"sort"
	"strings"
	"sync"
	"time"

	"golang.org/x/tools/go/packages"
	"golang.org/x/tools/go/ssa"
	"golang.org/x/tools/go/ssa/ssautil"
)

type Engine struct {
	prog           *ssa.Program
	pkgs           map[string]*ssa.Package
	tpkgs          []*packages.Package
	specs          *SpecDB
	typeTags       map[string]int64
	tagTypes       map[int64]types.Type
	globalIDs      map[*ssa.Global]int64
	funcIDs        map[*ssa.Function]int64
	nameTables     map[*ssa.Function]map[string][]ssa.Instruction
	loopCache      map[*ssa.Function]map[*ssa.BasicBlock]*loopInfo
	workdir        string
	bindings       map[string]*FuncBinding
	recording      map[string]map[string]string
	fpCache        map[*ssa.Function]map[*ssa.Alloc]string
	stableCache    map[*ssa.Function]map[string]string
	mode           string            // "first" | "all"
	contractSource map[string]string // pkg -> "repo" | "mirror"
	verbose        bool
}

const repoMod = "github.com/ipni/go-libipni"

func (e *Engine) typeTag(t types.Type) int64 {
	k := typeKey(t)
	if id, ok := e.typeTags[k]; ok {
		return id
	}
	id := int64(len(e.typeTags) + 1)
	e.typeTags[k] = id
	e.tagTypes[id] = t
	return id
}

func (e *Engine) typeOfTag(id int64) types.Type { return e.tagTypes[id] }

// tagByName resolves "pkg.T" or "*pkg.T" (package by name or path suffix) to its tag.
func (e *Engine) tagByName(name string) int64 {
	star := strings.HasPrefix(name, "*")
	n := strings.TrimPrefix(name, "*")
	if tn, ok := types.Universe.Lookup(n).(*types.TypeName); ok {
		var t types.Type = tn.Type()
		if star {
			t = types.NewPointer(t)
		}
		return e.typeTag(t)
	}
	dot := strings.LastIndex(n, ".")
	if dot < 0 {
		specFail("typeis: need pkg.Type, got %q", name)
	}
	pk, tn := n[:dot], n[dot+1:]
	for path, sp := range e.pkgs {
		if path == pk || strings.HasSuffix(path, "/"+pk) || sp.Pkg.Name() == pk {
			if obj, ok := sp.Pkg.Scope().Lookup(tn).(*types.TypeName); ok {
				var t types.Type = obj.Type()
				if star {
					t = types.NewPointer(t)
				}
				return e.typeTag(t)
			}
		}
	}
	specFail("typeis: type %q not found", name)
	return 0
}

func (e *Engine) globalID(g *ssa.Global) int64 {
	if id, ok := e.globalIDs[g]; ok {
		return id
	}
	id := int64(len(e.globalIDs) + 1)
	e.globalIDs[g] = id
	return id
}

func (e *Engine) funcID(f *ssa.Function) int64 {
	if id, ok := e.funcIDs[f]; ok {
		return id
	}
	id := int64(-2000000 - len(e.funcIDs))
	e.funcIDs[f] = id
	return id
}

func (e *Engine) pkgByPath(p string) *ssa.Package { return e.pkgs[p] }

func (e *Engine) globalFor(v *types.Var) *ssa.Global {
	if v.Pkg() == nil {
		return nil
	}
	sp := e.pkgs[v.Pkg().Path()]
	if sp == nil {
		return nil
	}
	g, _ := sp.Members[v.Name()].(*ssa.Global)
	return g
}

// load builds SSA for the given package patterns (relative to /repo).
func loadEngine(repo string, patterns []string, mirrorDir string, externDir string) (*Engine, error) {
	e := &Engine{pkgs: map[string]*ssa.Package{}, specs: newSpecDB(), typeTags: map[string]int64{}, tagTypes: map[int64]types.Type{},
		globalIDs: map[*ssa.Global]int64{}, funcIDs: map[*ssa.Function]int64{}, nameTables: map[*ssa.Function]map[string][]ssa.Instruction{},
		loopCache: map[*ssa.Function]map[*ssa.BasicBlock]*loopInfo{}, mode: "first", contractSource: map[string]string{}, bindings: loadBindings()}
	cfg := &packages.Config{Mode: packages.LoadAllSyntax, Dir: repo, BuildFlags: []string{"-tags=verif"}, Env: append(os.Environ(), "GOFLAGS=-mod=mod", "GOPROXY=off")}
	pkgs, err := packages.Load(cfg, patterns...)
	if err != nil {
		return nil, err
	}
	var errs []string
	packages.Visit(pkgs, nil, func(p *packages.Package) {
		if strings.HasPrefix(p.PkgPath, repoMod) {
			for _, er := range p.Errors {
				errs = append(errs, er.Error())
			}
		}
	})
	if len(errs) > 0 {
		return nil, fmt.Errorf("package errors:\n%s", strings.Join(errs, "\n"))
	}
	prog, spkgs := ssautil.AllPackages(pkgs, ssa.NaiveForm|ssa.GlobalDebug)
	e.prog = prog
	e.tpkgs = pkgs
	for _, sp := range spkgs {
		if sp != nil {
			e.pkgs[sp.Pkg.Path()] = sp
		}
	}
	for _, sp := range prog.AllPackages() {
		e.pkgs[sp.Pkg.Path()] = sp
	}
	for _, p := range pkgs {
		if sp := e.pkgs[p.PkgPath]; sp != nil {
			sp.Build()
		}
	}
	// contracts: /repo/<pkg>/contracts_verif.go, else the mirror — for the packages asked for
	// and for every package of the module they import (their contracts are used at call sites)
	var withContracts []*packages.Package
	seenPkg := map[string]bool{}
	packages.Visit(pkgs, nil, func(p *packages.Package) {
		if strings.HasPrefix(p.PkgPath, repoMod) && !seenPkg[p.PkgPath] {
			seenPkg[p.PkgPath] = true
			withContracts = append(withContracts, p)
		}
	})
	sort.Slice(withContracts, func(i, j int) bool { return withContracts[i].PkgPath < withContracts[j].PkgPath })
	for _, p := range withContracts {
		rel := strings.TrimPrefix(strings.TrimPrefix(p.PkgPath, repoMod), "/")
		rf := filepath.Join(repo, rel, "contracts_verif.go")
		mf := filepath.Join(mirrorDir, rel, "contracts_verif.go")
		var use string
		if _, err := os.Stat(rf); err == nil {
			use = rf
			e.contractSource[rel] = "repo"
			if mb, err2 := os.ReadFile(mf); err2 == nil {
				rb, _ := os.ReadFile(rf)
				if string(mb) != string(rb) {
					e.contractSource[rel] = "repo (differs from mirror: contracts-edited)"
				}
			}
		} else if _, err := os.Stat(mf); err == nil {
			use = mf
			e.contractSource[rel] = "mirror"
		}
		if use != "" {
			if err := e.specs.loadFile(use, p.PkgPath, false); err != nil {
				return nil, err
			}
		}
	}
	// extern contracts
	if ents, err := os.ReadDir(externDir); err == nil {
		for _, en := range ents {
			if strings.HasSuffix(en.Name(), ".spec") {
				if err := e.specs.loadFile(filepath.Join(externDir, en.Name()), "", true); err != nil {
					return nil, err
				}
			}
		}
	}
	return e, nil
}

// globalWriter returns the name of a non-init function of the package that stores to g ("" if none).
func (e *Engine) globalWriter(sp *ssa.Package, g *ssa.Global) string {
	var visit func(fn *ssa.Function) string
	visit = func(fn *ssa.Function) string {
		if fn == nil || fn.Name() == "init" || strings.HasPrefix(fn.Name(), "init#") {
			return ""
		}
		for _, b := range fn.Blocks {
			for _, in := range b.Instrs {
				if s, ok := in.(*ssa.Store); ok && s.Addr == ssa.Value(g) {
					return fn.Name()
				}
			}
		}
		for _, a := range fn.AnonFuncs {
			if w := visit(a); w != "" {
				return w
			}
		}
		return ""
	}
	for _, m := range sp.Members {
		switch x := m.(type) {
		case *ssa.Function:
			if w := visit(x); w != "" {
				return w
			}
		case *ssa.Type:
			for _, t := range []types.Type{x.Type(), types.NewPointer(x.Type())} {
				ms := e.prog.MethodSets.MethodSet(t)
				for i := 0; i < ms.Len(); i++ {
					if w := visit(e.prog.MethodValue(ms.At(i))); w != "" {
						return w
					}
				}
			}
		}
	}
	return ""
}

// findFunc resolves a contract key to the ssa function.
func (e *Engine) findFunc(pkgPath, key string) *ssa.Function {
	sp := e.pkgs[pkgPath]
	if sp == nil {
		return nil
	}
	base := key
	var anon []string
	if i := strings.Index(key, "$"); i >= 0 {
		base = key[:i]
		anon = strings.Split(key[i+1:], "$")
	}
	var fn *ssa.Function
	if strings.HasPrefix(base, "(") {
		k := strings.Index(base, ").")
		if k < 0 {
			return nil
		}
		tn := base[1:k]
		mn := base[k+2:]
		ptr := strings.HasPrefix(tn, "*")
		tn = strings.TrimPrefix(tn, "*")
		obj, ok := sp.Pkg.Scope().Lookup(tn).(*types.TypeName)
		if !ok {
			return nil
		}
		var t types.Type = obj.Type()
		if ptr {
			t = types.NewPointer(t)
		}
		sel := e.prog.MethodSets.MethodSet(t).Lookup(sp.Pkg, mn)
		if sel == nil {
			return nil
		}
		fn = e.prog.MethodValue(sel)
		// the method must be declared with exactly this receiver kind
		if fn != nil && fn.Synthetic != "" {
			return nil
		}
	} else {
		fn = sp.Func(base)
	}
	for _, a := range anon {
		if fn == nil {
			return nil
		}
		var n int
		fmt.Sscanf(a, "%d", &n)
		if n < 1 || n > len(fn.AnonFuncs) {
			return nil
		}
		fn = fn.AnonFuncs[n-1]
	}
	return fn
}

// ---------------------------------------------------------------------------

func (r *OblResult) wait() {
	if r.done != nil {
		<-r.done
	}
}

type OblResult struct {
	done    chan struct{}
	Name    string            `json:"name"`
	Kind    string            `json:"kind"`
	Func    string            `json:"function"`
	Pos     string            `json:"pos,omitempty"`
	Desc    string            `json:"desc,omitempty"`
	Verdict string            `json:"verdict"` // discharged | failed | unknown
	Solver  string            `json:"solver,omitempty"`
	Ms      int64             `json:"ms"`
	Bytes   int               `json:"bytes"`
	Paths   int               `json:"paths"`
	Model   map[string]string `json:"model,omitempty"`
	Raw     string            `json:"solver_output,omitempty"`
	Query   string            `json:"-"`
	All     []string          `json:"all_solvers,omitempty"`
}

type FuncReport struct {
	Key         string
	Pkg         string
	Props       []string
	Results     []*OblResult
	Notes       []string
	Paths       int
	Returns     int
	Unsupported string
	Vacuity     string   // "" ok, else reason
	NeverHooks  []string // `at call` hook keys of the contract that matched no call on any path
	NeverEvents []string // event names the contract mentions that no path produces (such clauses can only state absence)
	Covers      int
	Trusted     string
	Ms          int64
}

func (e *Engine) newCtx(fn *ssa.Function, c *Contract) *Ctx {
	return &Ctx{eng: e, fn: fn, contract: c, declSet: map[string]bool{}, strLits: map[string]int64{}, noteSet: map[string]bool{},
		maxPaths: maxPathsDefault(), closures: map[string]*Closure{}, loopCovers: map[int][]*Obligation{}}
}

func maxPathsDefault() int {
	if v := os.Getenv("GOVC_MAXPATHS"); v != "" {
		var n int
		fmt.Sscanf(v, "%d", &n)
		if n > 0 {
			return n
		}
	}
	return 4000
}

func (e *Engine) newState(ctx *Ctx, fn *ssa.Function, c *Contract) *State {
	st := &State{ctx: ctx, cells: map[int]*Cell{}, heap: map[string]Term{}, tainted: map[string]bool{}, ghost: map[string]Val{}, baseVer: map[string]baseInfo{}, pending: map[string]Term{}}
	st.fr = &Frame{fn: fn, regs: map[ssa.Value]Val{}, active: map[*ssa.BasicBlock]bool{}, visits: map[*ssa.BasicBlock]int{}, contract: c}
	return st
}

func (e *Engine) axioms(ctx *Ctx, st *State) {
	for _, ax := range e.specs.Axioms {
		env := &SpecEnv{st: st, vars: map[string]Val{}, what: "axiom " + ax.Name}
		var binders []string
		for _, v := range ax.Vars {
			bv := Term{sym("ax!" + ax.Name + "!" + v), SInt}
			env.vars[v] = intVal(bv)
			binders = append(binders, fmt.Sprintf("(%s Int)", bv.S))
		}
		func() {
			defer func() {
				if r := recover(); r != nil {
					if se, ok := r.(specError); ok {
						ctx.note("axiom %s could not be evaluated: %s", ax.Name, se.msg)
						return
					}
					panic(r)
				}
			}()
			t := env.evalBool(ax.Cl.Expr)
			s := t.S
			if len(binders) > 0 {
				s = fmt.Sprintf("(forall (%s) %s)", strings.Join(binders, " "), t.S)
			}
			ctx.axioms = append(ctx.axioms, axiomText{name: ax.Name, text: "(assert " + s + ")", syms: sfSyms(s), src: ax.Cl.Text})
		}()
	}
}

// verifyFunc generates and discharges all obligations of one function.
func (e *Engine) verifyFunc(fn *ssa.Function, c *Contract) (rep *FuncReport) {
	start := time.Now()
	rep = &FuncReport{Key: c.Key, Pkg: shortPkg(c.PkgPath), Props: c.Props}
	ctx := e.newCtx(fn, c)
	if os.Getenv("GOVC_FORKHIST") != "" {
		ctx.forkHist = map[string]int{}
	}
	defer func() {
		rep.Ms = time.Since(start).Milliseconds()
		rep.Notes = ctx.notes
		rep.Paths = ctx.paths + 1
		if r := recover(); r != nil {
			if u, ok := r.(unsupported); ok {
				rep.Unsupported = u.msg
				return
			}
			if se, ok := r.(specError); ok {
				rep.Unsupported = "spec error: " + se.msg
				return
			}
			rep.Unsupported = fmt.Sprintf("engine panic: %v\n%s", r, debug.Stack())
		}
	}()
	if c.Trusted != "" {
		rep.Trusted = c.Trusted
		return rep
	}
	st := e.newState(ctx, fn, c)
	ctx.declare("A0", SInt)
	st.assume(Ge(Term{"A0", SInt}, I(0)))
	e.axioms(ctx, st)
	// parameters
	a0 := Term{"A0", SInt}
	bindIn := func(name string, t types.Type) Val {
		v := st.freshVal(t, "in!"+name)
		for i, l := range leavesOf(t) {
			if l.Role == "ref" || l.Role == "arr" {
				st.assume(Le(v.L[i], a0))
			}
		}
		return v
	}
	for _, p := range fn.Params {
		v := bindIn(p.Name(), p.Type())
		st.fr.regs[p] = v
		st.fr.params = append(st.fr.params, v)
	}
	for _, fv := range fn.FreeVars {
		v := bindIn("fv!"+fv.Name(), fv.Type())
		// a free variable is the address of a captured variable: never nil
		st.assume(And(Ne(v.L[0], I(0)), Gt(v.L[0], I(0))))
		st.fr.regs[fv] = v
	}
	// ghosts
	for _, g := range c.Ghosts {
		env := st.specEnv("ghost init")
		func() {
			defer func() {
				if r := recover(); r != nil {
					if se, ok := r.(specError); ok {
						st.bindFail(fmt.Sprintf("%s.%s#ghost[%s]", rep.Pkg, c.Key, g.Name), fmt.Errorf("%s", se.msg))
						return
					}
					panic(r)
				}
			}()
			st.ghost[g.Name] = env.eval(g.Init.Expr)
		}()
	}
	prefix := fmt.Sprintf("%s.%s#", rep.Pkg, c.Key)
	// behavioural subtyping, precondition half: a method that implements an interface method under
	// contract may require no more than that contract does (callers through the interface only
	// establish the interface's precondition). ASSUMED: the interface value holds a non-nil receiver.
	for _, ic := range e.ifaceContractsFor(fn) {
		s2 := st.clone()
		if len(s2.fr.params) > 0 && len(s2.fr.params[0].L) == 1 {
			if _, isPtr := s2.fr.params[0].T.Underlying().(*types.Pointer); isPtr {
				s2.assume(Ne(s2.fr.params[0].L[0], I(0)))
			}
		}
		ienv := e.ifaceEnv(s2, fn, ic, nil)
		ienv.old = nil
		okPre := true
		for _, rq := range ic.Requires {
			t, err := s2.evalClause(ienv, rq)
			if err != nil {
				s2.bindFail(fmt.Sprintf("%sbind[requires of %s]", prefix, ic.Key), err)
				okPre = false
				continue
			}
			s2.assume(t)
		}
		if !okPre {
			continue
		}
		env2 := s2.specEnv("requires")
		env2.old = nil
		for i, rq := range c.Requires {
			t, err := s2.evalClause(env2, rq)
			if err != nil {
				continue // reported below as a bind failure of the requires clause
			}
			s2.obligeNamed(fmt.Sprintf("%srefines-pre[%s]#%d", prefix, ic.Key, i+1), "refines", "", t,
				fmt.Sprintf("precondition of this implementation follows from the precondition of %s: %s", ic.Key, rq.Text))
		}
		ctx.note("interface values on which %s is called hold a non-nil receiver (ASSUMED)", ic.Key)
	}
	// requires / assumes
	env := st.specEnv("requires")
	env.old = nil
	for i, rq := range append(append([]Clause(nil), c.Requires...), c.Assumes...) {
		t, err := st.evalClause(env, rq)
		if err != nil {
			st.bindFail(fmt.Sprintf("%sbind[requires %d]", prefix, i+1), err)
			continue
		}
		st.assume(t)
	}
	for _, a := range c.Assumes {
		ctx.note("assumed at the API boundary of %s: %s", c.Key, a.Text)
	}
	if fn.Synthetic == "package initializer" && fn.Pkg != nil {
		// the initialiser body runs once: the guard is false on entry
		if g, ok := fn.Pkg.Members["init$guard"].(*ssa.Global); ok {
			gv := st.loadQuiet(st.globalPtr(g).P, nil)
			st.assume(Not(gv.L[0]))
		}
	}
	// package-level variables declared non-nil (initialised at package init, never reassigned: checked statically)
	if sp := fn.Pkg; sp != nil {
		for _, name := range e.specs.NonNil[sp.Pkg.Path()] {
			g, ok := sp.Members[name].(*ssa.Global)
			if !ok {
				st.bindFail(fmt.Sprintf("%sbind[nonnil %s]", prefix, name), fmt.Errorf("no package-level variable %s", name))
				continue
			}
			if w := e.globalWriter(sp, g); w != "" {
				st.bindFail(fmt.Sprintf("%snonnil[%s]", prefix, name), fmt.Errorf("%s is declared nonnil but is assigned in %s", name, w))
				continue
			}
			gv := st.loadQuiet(st.globalPtr(g).P, nil)
			st.assume(Ne(gv.L[0], I(0)))
			ctx.note("package-level variable %s.%s is non-nil (initialised at package init; no other assignment exists in the package — checked)", sp.Pkg.Name(), name)
		}
	}
	// invariants over package-level variables: proved on the package initialiser, assumed elsewhere
	// (sound because no other function of the package assigns the variables — checked statically)
	var ginvPost []GInv
	if sp := fn.Pkg; sp != nil {
		for gi, inv := range e.specs.GInv[sp.Pkg.Path()] {
			if fn.Synthetic == "package initializer" {
				ginvPost = append(ginvPost, inv)
				continue
			}
			bad := false
			for _, name := range inv.Vars {
				g, ok := sp.Members[name].(*ssa.Global)
				if !ok {
					st.bindFail(fmt.Sprintf("%sbind[ginv %d]", prefix, gi+1), fmt.Errorf("no package-level variable %s", name))
					bad = true
					continue
				}
				if w := e.globalWriter(sp, g); w != "" {
					st.bindFail(fmt.Sprintf("%sginv[%s]", prefix, name), fmt.Errorf("%s is covered by a package invariant but is assigned in %s", name, w))
					bad = true
				}
			}
			if bad {
				continue
			}
			env := st.specEnv("ginv")
			env.old = nil
			t, err := st.evalClause(env, inv.Cl)
			if err != nil {
				st.bindFail(fmt.Sprintf("%sbind[ginv %d]", prefix, gi+1), err)
				continue
			}
			st.assume(t)
			ctx.note("package invariant (proved on the package initialiser; the variables have no other writer — checked): %s", inv.Cl.Text)
		}
	}
	// interface refinement: assume the interface method's requires
	ifaceCs := e.ifaceContractsFor(fn)
	st.entry = st.clone()
	st.entry.entry = nil
	var covers []*Obligation
	if fn.Blocks == nil {
		rep.Unsupported = "function has no body"
		return rep
	}
	e.execFrom(st, fn.Blocks[0], 0, nil, func(s *State, results []Val) {
		ctx.endStates++
		rep.Returns++
		// postconditions
		env := s.specEnv("ensures")
		if s.lastReturn != nil {
			env.scope = s.lastReturn.Block()
		}
		env.results = results
		if rs := fn.Signature.Results(); rs != nil {
			for i := 0; i < rs.Len(); i++ {
				env.resNames = append(env.resNames, rs.At(i).Name())
			}
		}
		for i, en := range append(append([]Clause(nil), c.Ensures...), c.EnsuresLocal...) {
			t, err := s.evalClause(env, en)
			name := fmt.Sprintf("%sensures#%d", prefix, i+1)
			if err != nil {
				s.bindFail(name, err)
				continue
			}
			s.obligeNoAssume(name, "ensures", s.posOf(s.lastReturn), t, en.Text)
		}
		for gi, inv := range ginvPost {
			genv := s.specEnv("ginv")
			t, err := s.evalClause(genv, inv.Cl)
			name := fmt.Sprintf("%sginv#%d", prefix, gi+1)
			if err != nil {
				s.bindFail(name, err)
				continue
			}
			s.obligeNoAssume(name, "ginv", "", t, "package invariant established by init: "+inv.Cl.Text)
		}
		for _, ic := range ifaceCs {
			ienv := e.ifaceEnv(s, fn, ic, results)
			for i, en := range ic.Ensures {
				t, err := s.evalClause(ienv, en)
				name := fmt.Sprintf("%srefines[%s]#%d", prefix, ic.Key, i+1)
				if err != nil {
					s.bindFail(name, err)
					continue
				}
				s.obligeNoAssume(name, "refines", s.posOf(s.lastReturn), t, ic.Key+": "+en.Text)
			}
		}
		// lock balance
		for _, l := range s.locks {
			var cur, old Term
			if l.p != nil {
				cv := s.loadQuiet(l.p, nil)
				ov := s.entry.loadQuiet(l.p, nil)
				var cs []Term
				for i := range cv.L {
					cs = append(cs, Eq(cv.L[i], ov.L[i]))
				}
				s.obligeNoAssume(fmt.Sprintf("%sbalance[%s]", prefix, l.name), "balance", s.posOf(s.lastReturn), And(cs...),
					"lock "+l.name+" is in the same state at return as at entry")
				continue
			}
			h := s.heapTerm("CH#held", SBool, false)
			h0 := s.entry.heapTerm("CH#held", SBool, false)
			cur, old = Select(h, l.ch), Select(h0, l.ch)
			s.obligeNoAssume(fmt.Sprintf("%sbalance[%s]", prefix, l.name), "balance", s.posOf(s.lastReturn), Eq(cur, old),
				"lock "+l.name+" is in the same state at return as at entry")
		}
		covers = append(covers, &Obligation{Name: fmt.Sprintf("%scover[return %d]", prefix, rep.Returns), Kind: "cover", Decls: len(ctx.decls), Asserts: s.pc, Goal: TFalse, Cover: true})
	})
	// discharge
	rep.Results = e.discharge(ctx, ctx.obls)
	// vacuity: for every loop that has paths going round it, one of them must be satisfiable
	// (otherwise every invariant-preservation obligation of that loop holds for the wrong reason)
	var lks []int
	for k := range ctx.loopCovers {
		lks = append(lks, k)
	}
	sort.Ints(lks)
	for _, k := range lks {
		ok := false
		undecided := false
		for i, cv := range ctx.loopCovers[k] {
			if i >= 40 {
				break
			}
			q := e.query(ctx, cv)
			r, _ := Solve(e.workdir, cv.Name, q, "first")
			rep.Covers++
			if r.Verdict == "sat" {
				ok = true
				break
			}
			if r.Verdict != "unsat" {
				undecided = true
			}
		}
		if !ok && undecided {
			// the solvers gave no answer (quantified invariants keep them from producing a model): ask
			// again for the path with the quantified facts left out - still a reachability witness for
			// the loop body under everything else that is assumed
			for i, cv := range ctx.loopCovers[k] {
				if i >= 40 {
					break
				}
				c2 := *cv
				c2.Asserts = nil
				for _, a := range cv.Asserts {
					if !strings.Contains(a, "(forall ") && !strings.Contains(a, "(exists ") {
						c2.Asserts = append(c2.Asserts, a)
					}
				}
				q := e.query(ctx, &c2)
				r, _ := Solve(e.workdir, cv.Name, q, "first")
				rep.Covers++
				if r.Verdict == "sat" {
					ok = true
					ctx.note("loop %d of %s: the reachability cover was decided with the quantified facts left out (the solvers returned no model with them)", k, c.Key)
					break
				}
			}
		}
		if !ok {
			rep.Vacuity = fmt.Sprintf("no path that goes round loop %d is satisfiable (contradictory invariant, or an over-strong assumed contract inside the loop)", k)
		}
	}
	// vacuity: at least one return must be reachable
	if len(covers) == 0 {
		rep.Vacuity = "no return path was generated"
	} else {
		ok := false
		for _, cv := range covers {
			q := e.query(ctx, cv)
			r, _ := Solve(e.workdir, cv.Name, q, "first")
			if keepDir != "" && r.Verdict != "sat" {
				os.WriteFile(filepath.Join(keepDir, "cover_"+sanitize(cv.Name)+".smt2"), []byte(q+"\n; "+r.Verdict+" "+r.Solver+"\n; "+strings.ReplaceAll(r.Raw, "\n", "\n; ")), 0o644)
			}
			rep.Covers++
			if r.Verdict == "sat" {
				ok = true
				break
			}
		}
		if !ok {
			rep.Vacuity = "no return path is satisfiable under the contract's requires (contradictory contract or axioms)"
		}
	}
	// event names the contract mentions that no explored path produced
	seenLit := map[string]bool{}
	for _, cl := range c.allClauses() {
		for _, m := range reEventLit.FindAllStringSubmatch(cl.Text, -1) {
			for _, q := range reQuoted.FindAllStringSubmatch(m[1], -1) {
				name := e.stableEventName(fn, q[1])
				seenEv := ctx.eventsSeen[name]
				if strings.HasSuffix(name, ":*") {
					for ev := range ctx.eventsSeen {
						if strings.HasPrefix(ev, name[:len(name)-1]) {
							seenEv = true
						}
					}
				}
				if !seenEv && !seenLit[q[1]] {
					seenLit[q[1]] = true
					rep.NeverEvents = append(rep.NeverEvents, q[1])
				}
			}
		}
	}
	for key, hs := range c.Hooks {
		if strings.HasPrefix(key, "recv:") || strings.HasPrefix(key, "make#") || ctx.hooksFired[key] {
			continue
		}
		kinds := map[string]bool{}
		for _, h := range hs {
			kinds[h.Kind] = true
		}
		if kinds["assert"] || kinds["ghost"] {
			rep.NeverHooks = append(rep.NeverHooks, key)
		}
	}
	sort.Strings(rep.NeverHooks)
	for _, r := range rep.Results {
		if r.Kind == "bind" || rep.Unsupported != "" {
			rep.NeverHooks = nil // paths were cut short by a clause that does not bind: reported there
		}
	}
	for _, key := range rep.NeverHooks {
		// a hook that matches no call leaves its ghost unset / its assertion unchecked: the contract no longer binds
		rep.Results = append(rep.Results, &OblResult{Name: fmt.Sprintf("%s.%s#hook[%s]", shortPkg(funcPkgPath(fn)), funcKey(fn), key), Kind: "bind", Func: funcKey(fn),
			Desc: "contract does not bind: `at call " + key + "` matches no call that any path reaches", Verdict: "failed"})
	}
	sort.Strings(rep.NeverEvents)
	for _, n := range rep.NeverEvents {
		ctx.note("the contract of %s names event %q, which no path produces: the clause states its absence", c.Key, n)
	}
	return rep
}

var reEventLit = regexp.MustCompile(`(?:count|before|notafter|itercount|evarg|iterarg)\(([^)]*)\)`)
var reQuoted = regexp.MustCompile(`"([^"]+)"`)

// allClauses lists every clause of the contract (for textual scans).
func (c *Contract) allClauses() []Clause {
	var out []Clause
	out = append(out, c.Requires...)
	out = append(out, c.Ensures...)
	out = append(out, c.EnsuresLocal...)
	out = append(out, c.EnsuresAssumed...)
	out = append(out, c.Assumes...)
	for _, hs := range c.Hooks {
		for _, h := range hs {
			out = append(out, h.Cl)
		}
	}
	for _, ls := range c.Loops {
		out = append(out, ls.Invariants...)
		out = append(out, ls.IterEnsures...)
	}
	return out
}

func (st *State) obligeNoAssume(name, kind, pos string, goal Term, desc string) {
	if st.dry != nil || st.dead {
		return
	}
	o := &Obligation{Name: name, Kind: kind, Func: funcKey(st.ctx.fn), Pos: pos, Desc: desc,
		Decls: len(st.ctx.decls), Asserts: st.pc, Goal: goal, PathID: st.pathID}
	st.ctx.obls = append(st.ctx.obls, o)
}

func (e *Engine) ifaceContractsFor(fn *ssa.Function) []*Contract {
	recv := fn.Signature.Recv()
	if recv == nil {
		return nil
	}
	var out []*Contract
	for _, c := range e.specs.Contracts {
		if !c.Iface {
			continue
		}
		dot := strings.LastIndex(c.Key, ".")
		if dot < 0 || c.Key[dot+1:] != fn.Name() {
			continue
		}
		sp := e.pkgs[c.PkgPath]
		if sp == nil {
			continue
		}
		tn, ok := sp.Pkg.Scope().Lookup(c.Key[:dot]).(*types.TypeName)
		if !ok {
			continue
		}
		it, ok := tn.Type().Underlying().(*types.Interface)
		if !ok {
			continue
		}
		if types.Implements(recv.Type(), it) {
			out = append(out, c)
		}
	}
	sort.Slice(out, func(i, j int) bool { return out[i].Key < out[j].Key })
	return out
}

func (e *Engine) ifaceEnv(s *State, fn *ssa.Function, ic *Contract, results []Val) *SpecEnv {
	env := &SpecEnv{st: s, old: s.entry, vars: map[string]Val{}, what: "interface contract " + ic.Key}
	if sp := e.pkgs[ic.PkgPath]; sp != nil {
		env.pkg = sp.Pkg
		dot := strings.LastIndex(ic.Key, ".")
		if tn, ok := sp.Pkg.Scope().Lookup(ic.Key[:dot]).(*types.TypeName); ok {
			if it, ok := tn.Type().Underlying().(*types.Interface); ok {
				for i := 0; i < it.NumMethods(); i++ {
					m := it.Method(i)
					if m.Name() == fn.Name() {
						sig := m.Type().(*types.Signature)
						for j := 0; j < sig.Params().Len() && j+1 < len(s.fr.params); j++ {
							n := sig.Params().At(j).Name()
							if n != "" && n != "_" {
								env.vars[n] = s.fr.params[j+1]
							}
							env.vars[fmt.Sprintf("arg%d", j+1)] = s.fr.params[j+1]
						}
					}
				}
			}
		}
	}
	if len(s.fr.params) > 0 {
		rv := s.fr.params[0]
		if _, isIf := rv.T.Underlying().(*types.Interface); !isIf {
			rv = s.makeIface(types.NewInterfaceType(nil, nil), rv)
		}
		env.vars["recv"] = rv
		env.vars["arg0"] = rv
	}
	env.results = results
	return env
}

func (e *Engine) query(ctx *Ctx, o *Obligation) string { return e.queryAx(ctx, o, !o.Cover) }

func (e *Engine) queryAx(ctx *Ctx, o *Obligation, withAxioms bool) string {
	var body strings.Builder
	// axioms are included only when every spec function they talk about occurs in the goal or path condition
	core := strings.Join(o.Asserts, "\n") + "\n" + o.Goal.S
	for _, ax := range ctx.axioms {
		need := withAxioms
		for _, s := range ax.syms {
			if !strings.Contains(core, s) {
				need = false
				break
			}
		}
		if need {
			body.WriteString(ax.text)
			body.WriteString("\n")
			ctx.noteLocked("axiom %s: %s", ax.name, ax.src)
		}
	}
	for _, a := range o.Asserts {
		body.WriteString("(assert ")
		body.WriteString(a)
		body.WriteString(")\n")
	}
	if !o.Cover {
		body.WriteString("(assert (not ")
		body.WriteString(o.Goal.S)
		body.WriteString("))\n")
	}
	bs := body.String()
	// only the declarations this query mentions (names introduced on other paths are left out)
	used := symbolsOf(bs)
	var b strings.Builder
	b.WriteString("(set-option :produce-models true)\n(set-logic ALL)\n")
	var globals []string
	for _, d := range ctx.decls[:o.Decls] {
		if strings.HasPrefix(d, "(assert") {
			globals = append(globals, d)
			for k := range symbolsOf(d) {
				used[k] = true
			}
		}
	}
	for _, d := range ctx.decls[:o.Decls] {
		if strings.HasPrefix(d, "(assert") {
			continue
		}
		if used[declName(d)] {
			b.WriteString(d)
			b.WriteString("\n")
		}
	}
	for _, g := range globals {
		b.WriteString(g)
		b.WriteString("\n")
	}
	b.WriteString(bs)
	b.WriteString("(check-sat)\n(get-model)\n")
	return b.String()
}

// declName extracts NAME from "(declare-const NAME ..." / "(declare-fun NAME ...".
func declName(d string) string {
	i := strings.Index(d, " ")
	if i < 0 {
		return ""
	}
	rest := d[i+1:]
	if strings.HasPrefix(rest, "|") {
		if j := strings.Index(rest[1:], "|"); j >= 0 {
			return rest[:j+2]
		}
	}
	if j := strings.IndexAny(rest, " )"); j >= 0 {
		return rest[:j]
	}
	return rest
}

// symbolsOf returns the set of SMT symbols (simple and |quoted|) occurring in a script.
func symbolsOf(s string) map[string]bool {
	out := map[string]bool{}
	n := len(s)
	for i := 0; i < n; {
		c := s[i]
		switch {
		case c == '|':
			j := strings.IndexByte(s[i+1:], '|')
			if j < 0 {
				return out
			}
			out[s[i:i+j+2]] = true
			i += j + 2
		case c == '(' || c == ')' || c == ' ' || c == '\n' || c == '\t':
			i++
		default:
			j := i
			for j < n && s[j] != '(' && s[j] != ')' && s[j] != ' ' && s[j] != '\n' && s[j] != '\t' && s[j] != '|' {
				j++
			}
			out[s[i:j]] = true
			i = j
		}
	}
	return out
}

// discharge runs all obligations (grouped by name) on the portfolio, in parallel.
func (e *Engine) discharge(ctx *Ctx, obls []*Obligation) []*OblResult {
	type job struct {
		o   *Obligation
		res *OblResult
		q   string
	}
	byName := map[string][]*job{}
	var order []string
	var jobs []*job
	for _, o := range obls {
		if _, ok := byName[o.Name]; !ok {
			order = append(order, o.Name)
		}
		// a goal that is a conjunction is discharged conjunct by conjunct (same path condition, smaller
		// goals): big quantified conjunctions are where the solvers are unstable
		var parts []Term
		if strings.Contains(o.Goal.S, "(forall ") || strings.Contains(o.Goal.S, "(exists ") {
			parts = splitAnd(o.Goal)
		}
		if o.Cover || len(parts) < 2 {
			j := &job{o: o}
			byName[o.Name] = append(byName[o.Name], j)
			jobs = append(jobs, j)
			continue
		}
		for _, g := range parts {
			oc := *o
			oc.Goal = g
			j := &job{o: &oc}
			byName[o.Name] = append(byName[o.Name], j)
			jobs = append(jobs, j)
		}
	}
	sem := make(chan struct{}, 14)
	var wg sync.WaitGroup
	seen := map[[32]byte]*OblResult{}
	var mu sync.Mutex
	for _, j := range jobs {
		j := j
		if j.o.Goal.IsTrue() {
			j.res = &OblResult{Verdict: "discharged", Solver: "fold"}
			continue
		}
		r := &OblResult{}
		j.res = r
		wg.Add(1)
		sem <- struct{}{}
		go func() {
			defer wg.Done()
			defer func() { <-sem }()
			// queries are built on demand and dropped after solving (a function can have tens of
			// thousands of path-obligations); identical queries are solved once
			q := e.query(ctx, j.o)
			h := sha256.Sum256([]byte(q))
			mu.Lock()
			if prev, ok := seen[h]; ok {
				mu.Unlock()
				prev.wait()
				*r = *prev
				return
			}
			r.done = make(chan struct{})
			seen[h] = r
			mu.Unlock()
			defer close(r.done)
			j.q = q
			sr, all := Solve(e.workdir, j.o.Name, j.q, e.mode)
			if sr.Verdict != "unsat" && sr.Verdict != "sat" && strings.Contains(j.q, "(forall ") {
				// quantified axioms keep solvers from returning models: ask again without them;
				// a model of the axiom-free query is only a candidate and must replay on the real code
				q2 := e.queryAx(ctx, j.o, false)
				if !strings.Contains(q2, "(forall ") {
					sr2, _ := Solve(e.workdir, j.o.Name, q2, "first")
					if sr2.Verdict == "sat" {
						sr = sr2
						sr.Solver += " (axioms dropped for model search)"
						j.q = q2
					}
				}
			}
			r.Solver = sr.Solver
			r.Ms = sr.Ms
			r.Bytes = len(j.q)
			for _, a := range all {
				r.All = append(r.All, a.Solver+"="+a.Verdict)
			}
			switch sr.Verdict {
			case "unsat":
				r.Verdict = "discharged"
				if e.mode == "all" {
					n := 0
					for _, a := range all {
						if a.Verdict == "unsat" {
							n++
						}
						if a.Verdict == "sat" {
							r.Verdict = "solver-disagreement"
						}
					}
					if n < 2 && r.Verdict == "discharged" {
						r.Verdict = "discharged-by-one"
					}
				}
			case "sat":
				r.Verdict = "failed"
				r.Model = parseModel(sr.Model)
				r.Raw = truncate(sr.Raw, 6000)
				r.Query = j.q
				if e.mode == "all" {
					for _, a := range all {
						if a.Verdict == "unsat" {
							r.Verdict = "solver-disagreement"
						}
					}
				}
			default:
				r.Verdict = "unknown"
				r.Raw = truncate(sr.Raw, 2000)
				r.Query = j.q
			}
			j.q = ""
		}()
	}
	wg.Wait()
	var out []*OblResult
	for _, name := range order {
		js := byName[name]
		agg := &OblResult{Name: name, Kind: js[0].o.Kind, Func: js[0].o.Func, Pos: js[0].o.Pos, Desc: js[0].o.Desc, Verdict: "discharged", Paths: len(js)}
		for _, j := range js {
			agg.Ms += j.res.Ms
			if j.res.Bytes > agg.Bytes {
				agg.Bytes = j.res.Bytes
			}
			if agg.Solver == "" || agg.Solver == "fold" {
				agg.Solver = j.res.Solver
			}
			rank := func(v string) int {
				switch v {
				case "discharged":
					return 0
				case "discharged-by-one":
					return 1
				case "unknown":
					return 2
				case "failed":
					return 3
				case "solver-disagreement":
					return 4
				}
				return 2
			}
			if rank(j.res.Verdict) > rank(agg.Verdict) {
				agg.Verdict = j.res.Verdict
				agg.Model = j.res.Model
				agg.Raw = j.res.Raw
				agg.Query = j.res.Query
				agg.Solver = j.res.Solver
				agg.Pos = j.o.Pos
				agg.Desc = j.o.Desc
				agg.All = j.res.All
			}
		}
		out = append(out, agg)
	}
	return out
}

// splitAnd returns the top-level conjuncts of an SMT term of the form (and a b ...), recursively; any
// other term is returned as it is.
func splitAnd(t Term) []Term {
	s := strings.TrimSpace(t.S)
	if !strings.HasPrefix(s, "(and ") || !strings.HasSuffix(s, ")") {
		return []Term{t}
	}
	body := s[5 : len(s)-1]
	var parts []Term
	depth, start := 0, -1
	inBar := false
	flush := func(end int) {
		if start >= 0 {
			parts = append(parts, splitAnd(Term{body[start:end], SBool})...)
			start = -1
		}
	}
	for i := 0; i < len(body); i++ {
		c := body[i]
		if c == '|' {
			inBar = !inBar
			if start < 0 {
				start = i
			}
			continue
		}
		if inBar {
			continue
		}
		switch {
		case c == '(':
			if depth == 0 && start < 0 {
				start = i
			}
			depth++
		case c == ')':
			depth--
			if depth == 0 {
				flush(i + 1)
			}
		case c == ' ' || c == '\n' || c == '\t':
			if depth == 0 {
				flush(i)
			}
		default:
			if depth == 0 && start < 0 {
				start = i
			}
		}
	}
	if depth != 0 || inBar {
		return []Term{t}
	}
	flush(len(body))
	if len(parts) < 2 {
		return []Term{t}
	}
	return parts
}

type axiomText struct {
	name, text, src string
	syms            []string
}

var sfRe = regexp.MustCompile(`sf![A-Za-z0-9_]+`)

func sfSyms(s string) []string {
	seen := map[string]bool{}
	var out []string
	for _, m := range sfRe.FindAllString(s, -1) {
		if !seen[m] {
			seen[m] = true
			out = append(out, m)
		}
	}
	return out
}

func sanitize(s string) string {
	return strings.NewReplacer("/", "_", " ", "_", "*", "", "(", "", ")", "", "[", "_", "]", "_", "#", "_").Replace(s)
}

func truncate(s string, n int) string {
	if len(s) > n {
		return s[:n] + "…"
	}
	return s
}
