package main

// Contract files: parsing of //@ lines and evaluation of spec expressions.

import (
	"fmt"
	"go/ast"
	"go/constant"
	"go/parser"
	"go/token"
	"go/types"
	"os"
	"regexp"
	"sort"
	"strconv"
	"strings"

	"golang.org/x/tools/go/ssa"
)

type Clause struct {
	Text string
	Expr *SpecExpr
	Line int
	File string
	Name string // optional label
}

type SpecExpr struct {
	Op   string // "", "==>", "<==>"
	L, R *SpecExpr
	Go   ast.Expr
	Text string
}

type LoopSpec struct {
	Invariants  []Clause
	Decreases   *Clause
	IterGhosts  []GhostDecl // ghost variables (re)initialised at the start of every iteration
	IterEnsures []Clause    // checked at the end of every iteration (back edge)
	Exhaustive  bool        // the loop is only left through its header (no break) or by returning
}

type Hook struct {
	Kind  string // assert | assume | ghost | allocbound
	After bool
	Var   string // ghost var for ghost assignment
	Cl    Clause
}

type GhostDecl struct {
	Name string
	Init Clause
}

type Contract struct {
	Key              string // package-relative function key, e.g. "(*Unknown).ReadFrom"
	PkgPath          string
	Iface            bool
	Requires         []Clause
	Ensures          []Clause
	Modifies         []Clause
	ModifiesAll      bool
	Loops            map[int]*LoopSpec
	Hooks            map[string][]Hook // "callee#k" -> hooks
	Ghosts           []GhostDecl
	Inline           bool
	Trusted          string
	MayPanic         bool
	OpaqueInterior   string // reason: interior pointers stored into the heap are opaque handles (assumption)
	Pure             bool   // modifies nothing visible to the caller (checked on the body), deterministic
	Det              bool   // result and effects are functions of the inputs (every callee is det)
	Opaque           bool
	Props            []string
	File             string
	Line             int
	Extern           bool
	NoBody           bool     // contract is used at call sites only (body not verified)
	Assumes          []Clause // assumed at entry, listed as assumptions (API-boundary facts)
	EnsuresLocal     []Clause // proved on the body, not exported to callers (may mention ghosts and events)
	EnsuresAssumed   []Clause // postconditions used at call sites but NOT proved on the body (listed as assumptions)
	Fresh            bool     // result is a fresh object (extern)
	LockChans        []string
	Shutdown         []string // channel subjects one of which every blocking select must receive from
	MayBlock         []string // blocking operations outside a select that are accepted (each listed in evidence)
	InvokesOnSuccess []string // function-typed parameters called exactly once (returning nil) when the callee's last result is nil
	Callsback        []string // extern: the callee acts only through these methods of its first argument
}

type SpecFunc struct {
	Name   string
	Params []string
	PSorts []string
	Ret    string
	Body   *SpecExpr // nil => uninterpreted
	Text   string
}

type Axiom struct {
	Name string
	Cl   Clause
	Vars []string // universally quantified int vars
}

type GInv struct {
	Vars []string
	Cl   Clause
}

type SpecDB struct {
	Contracts map[string]*Contract // key: pkgpath + "::" + funcKey
	Funcs     map[string]*SpecFunc
	Axioms    []Axiom
	Files     []string
	LockChans map[string]bool     // "pkgpath.Type.field" channel used as a lock
	Protects  map[string]string   // "pkgpath.Type.field" -> mutex field of the same struct that must be held
	GInv      map[string][]GInv   // pkgpath -> invariants over package-level variables (established by init, no other writers)
	NonNil    map[string][]string // pkgpath -> package-level variables initialised non-nil and never reassigned
}

func newSpecDB() *SpecDB {
	db := &SpecDB{Contracts: map[string]*Contract{}, Funcs: map[string]*SpecFunc{}, LockChans: map[string]bool{}, Protects: map[string]string{}, NonNil: map[string][]string{}, GInv: map[string][]GInv{}}
	if err := db.loadText(builtinSpec, "builtin:bytes", "", true); err != nil {
		panic(err)
	}
	return db
}

// Theory of abstract byte strings (content of []byte / string values). The
// axioms are facts about finite sequences; they are assumptions of every proof
// that uses content().
const builtinSpec = `
//@ spec func blen(b int) int
//@ spec func bcat(a int, b int) int
//@ spec func bsub(b int, lo int, hi int) int
//@ spec func bempty() int
//@ axiom blen_nonneg [x]: blen(x) >= 0
//@ axiom blen_empty: blen(bempty()) == 0
//@ axiom blen_zero_is_empty [x]: blen(x) == 0 ==> x == bempty()
//@ axiom blen_cat [a, b]: blen(bcat(a, b)) == blen(a) + blen(b)
//@ axiom cat_empty_l [x]: bcat(bempty(), x) == x
//@ axiom cat_empty_r [x]: bcat(x, bempty()) == x
//@ axiom sub_cat_l [a, b]: bsub(bcat(a, b), 0, blen(a)) == a
//@ axiom sub_cat_r [a, b]: bsub(bcat(a, b), blen(a), blen(a) + blen(b)) == b
//@ axiom sub_all [x]: bsub(x, 0, blen(x)) == x
//@ axiom blen_sub [x, lo, hi]: 0 <= lo && lo <= hi && hi <= blen(x) ==> blen(bsub(x, lo, hi)) == hi - lo
//@ axiom cat_sub_split [x, k]: 0 <= k && k <= blen(x) ==> bcat(bsub(x, 0, k), bsub(x, k, blen(x))) == x
`

var fset = token.NewFileSet()

func splitTop(s, op string) (string, string, bool) {
	depth := 0
	inStr := false
	for i := 0; i+len(op) <= len(s); i++ {
		c := s[i]
		if inStr {
			if c == '\\' {
				i++
			} else if c == '"' {
				inStr = false
			}
			continue
		}
		switch c {
		case '"':
			inStr = true
		case '(', '[', '{':
			depth++
		case ')', ']', '}':
			depth--
		}
		if depth == 0 && strings.HasPrefix(s[i:], op) {
			// make sure "==>" is not part of "<==>"
			if op == "==>" && i > 0 && s[i-1] == '<' {
				continue
			}
			return s[:i], s[i+len(op):], true
		}
	}
	return "", "", false
}

func parseSpecExpr(text string) (*SpecExpr, error) {
	text = strings.TrimSpace(text)
	if l, r, ok := splitTop(text, "<==>"); ok {
		le, err := parseSpecExpr(l)
		if err != nil {
			return nil, err
		}
		re, err := parseSpecExpr(r)
		if err != nil {
			return nil, err
		}
		return &SpecExpr{Op: "<==>", L: le, R: re, Text: text}, nil
	}
	if l, r, ok := splitTop(text, "==>"); ok {
		le, err := parseSpecExpr(l)
		if err != nil {
			return nil, err
		}
		re, err := parseSpecExpr(r) // right associative
		if err != nil {
			return nil, err
		}
		return &SpecExpr{Op: "==>", L: le, R: re, Text: text}, nil
	}
	// nested implications inside parentheses / call arguments are rewritten to
	// the function forms implies(a, b) and iff(a, b) before go/parser sees them.
	rew, err := rewriteNested(text)
	if err != nil {
		return nil, err
	}
	e, err := parser.ParseExpr(rew)
	if err != nil {
		return nil, fmt.Errorf("spec expression %q: %v", text, err)
	}
	return &SpecExpr{Go: e, Text: text}, nil
}

// rewriteNested rewrites "(a ==> b)" groups (inside brackets or call args)
// into implies(a, b); works recursively on the innermost groups first.
func rewriteNested(s string) (string, error) {
	if !strings.Contains(s, "==>") {
		return s, nil
	}
	// find bracketed / argument segments containing ==> at their top level
	var out strings.Builder
	i := 0
	for i < len(s) {
		c := s[i]
		if c == '(' {
			// find matching paren
			depth := 0
			j := i
			inStr := false
			for ; j < len(s); j++ {
				if inStr {
					if s[j] == '\\' {
						j++
					} else if s[j] == '"' {
						inStr = false
					}
					continue
				}
				if s[j] == '"' {
					inStr = true
				} else if s[j] == '(' {
					depth++
				} else if s[j] == ')' {
					depth--
					if depth == 0 {
						break
					}
				}
			}
			if j >= len(s) {
				return "", fmt.Errorf("unbalanced parentheses in %q", s)
			}
			inner := s[i+1 : j]
			// split arguments on top-level commas
			args := splitArgs(inner)
			for k, a := range args {
				ra, err := rewriteArg(a)
				if err != nil {
					return "", err
				}
				args[k] = ra
			}
			out.WriteString("(" + strings.Join(args, ",") + ")")
			i = j + 1
			continue
		}
		out.WriteByte(c)
		i++
	}
	return out.String(), nil
}

func rewriteArg(a string) (string, error) {
	if l, r, ok := splitTop(a, "<==>"); ok {
		ls, err := rewriteArg(l)
		if err != nil {
			return "", err
		}
		rs, err := rewriteArg(r)
		if err != nil {
			return "", err
		}
		return "iff(" + ls + "," + rs + ")", nil
	}
	if l, r, ok := splitTop(a, "==>"); ok {
		ls, err := rewriteArg(l)
		if err != nil {
			return "", err
		}
		rs, err := rewriteArg(r)
		if err != nil {
			return "", err
		}
		return "implies(" + ls + "," + rs + ")", nil
	}
	return rewriteNested(a)
}

func splitArgs(s string) []string {
	var out []string
	depth := 0
	inStr := false
	start := 0
	for i := 0; i < len(s); i++ {
		c := s[i]
		if inStr {
			if c == '\\' {
				i++
			} else if c == '"' {
				inStr = false
			}
			continue
		}
		switch c {
		case '"':
			inStr = true
		case '(', '[', '{':
			depth++
		case ')', ']', '}':
			depth--
		case ',':
			if depth == 0 {
				out = append(out, s[start:i])
				start = i + 1
			}
		}
	}
	out = append(out, s[start:])
	return out
}

var reLoop = regexp.MustCompile(`^loop\s+(\d+)\s*:\s*(invariant|decreases|iteration ghost|iteration ensures|exhaustive)\s*(.*)$`)
var reAtCall = regexp.MustCompile(`^at\s+(call\s+|recv\s+|send\s+)?(\S+?)\s*:\s*(after\s+)?(assert|assume|ghost|allocbound|havoc)\s+(.*)$`)
var reGhost = regexp.MustCompile(`^ghost\s+(\w+)\s*:=\s*(.*)$`)
var reSpecFn = regexp.MustCompile(`^spec\s+func\s+(\w+)\s*\(([^)]*)\)\s*(\w+)\s*(=\s*(.*))?$`)
var reAxiom = regexp.MustCompile(`^axiom\s+(\w+)\s*(\[([^\]]*)\])?\s*:\s*(.*)$`)

func (db *SpecDB) loadFile(path, pkgPath string, extern bool) error {
	data, err := os.ReadFile(path)
	if err != nil {
		return err
	}
	return db.loadText(string(data), path, pkgPath, extern)
}

func (db *SpecDB) loadText(data, path, pkgPath string, extern bool) error {
	db.Files = append(db.Files, path)
	var cur *Contract
	lines := strings.Split(data, "\n")
	mk := func(text string, ln int) (Clause, error) {
		e, err := parseSpecExpr(text)
		if err != nil {
			return Clause{}, fmt.Errorf("%s:%d: %v", path, ln, err)
		}
		return Clause{Text: strings.TrimSpace(text), Expr: e, Line: ln, File: path}, nil
	}
	for i := 0; i < len(lines); i++ {
		raw := strings.TrimSpace(lines[i])
		ln := i + 1
		if !strings.HasPrefix(raw, "//@") {
			if extern && strings.HasPrefix(raw, "package ") {
				pkgPath = strings.TrimSpace(strings.TrimPrefix(raw, "package "))
			}
			continue
		}
		line := strings.TrimSpace(strings.TrimPrefix(raw, "//@"))
		for strings.HasSuffix(line, "\\") && i+1 < len(lines) {
			i++
			nxt := strings.TrimSpace(lines[i])
			nxt = strings.TrimSpace(strings.TrimPrefix(nxt, "//@"))
			line = strings.TrimSuffix(line, "\\") + " " + nxt
		}
		if idx := strings.Index(line, " //"); idx >= 0 && !strings.Contains(line[:idx], "\"") {
			line = strings.TrimSpace(line[:idx])
		}
		if line == "" {
			continue
		}
		switch {
		case strings.HasPrefix(line, "package "):
			pkgPath = strings.TrimSpace(strings.TrimPrefix(line, "package "))
			cur = nil
		case strings.HasPrefix(line, "func ") || strings.HasPrefix(line, "iface "):
			isIface := strings.HasPrefix(line, "iface ")
			key := strings.TrimSpace(line[strings.Index(line, " ")+1:])
			if k := strings.Index(key, "("); k > 0 && !strings.HasPrefix(key, "(") {
				key = key[:k]
			} else if strings.HasPrefix(key, "(") {
				// "(*T).M(args)" -> strip the trailing arg list if present
				if k := strings.Index(key, ")."); k > 0 {
					rest := key[k+2:]
					if p := strings.Index(rest, "("); p >= 0 {
						key = key[:k+2] + rest[:p]
					}
				}
			}
			cur = &Contract{Key: key, PkgPath: pkgPath, Iface: isIface, Loops: map[int]*LoopSpec{}, Hooks: map[string][]Hook{}, File: path, Line: ln, Extern: extern}
			id := pkgPath + "::" + key
			if _, dup := db.Contracts[id]; dup {
				return fmt.Errorf("%s:%d: duplicate contract for %s", path, ln, id)
			}
			db.Contracts[id] = cur
		case strings.HasPrefix(line, "spec "):
			m := reSpecFn.FindStringSubmatch(line)
			if m == nil {
				return fmt.Errorf("%s:%d: bad spec func: %s", path, ln, line)
			}
			sf := &SpecFunc{Name: m[1], Ret: specSort(m[3]), Text: line}
			for _, p := range strings.Split(m[2], ",") {
				p = strings.TrimSpace(p)
				if p == "" {
					continue
				}
				parts := strings.Fields(p)
				if len(parts) != 2 {
					return fmt.Errorf("%s:%d: bad spec param %q", path, ln, p)
				}
				sf.Params = append(sf.Params, parts[0])
				sf.PSorts = append(sf.PSorts, specSort(parts[1]))
			}
			if m[5] != "" {
				e, err := parseSpecExpr(m[5])
				if err != nil {
					return fmt.Errorf("%s:%d: %v", path, ln, err)
				}
				sf.Body = e
			}
			db.Funcs[sf.Name] = sf
			cur = nil
		case strings.HasPrefix(line, "axiom "):
			m := reAxiom.FindStringSubmatch(line)
			if m == nil {
				return fmt.Errorf("%s:%d: bad axiom: %s", path, ln, line)
			}
			cl, err := mk(m[4], ln)
			if err != nil {
				return err
			}
			ax := Axiom{Name: m[1], Cl: cl}
			for _, v := range strings.Split(m[3], ",") {
				if v = strings.TrimSpace(v); v != "" {
					ax.Vars = append(ax.Vars, v)
				}
			}
			db.Axioms = append(db.Axioms, ax)
			cur = nil
		case strings.HasPrefix(line, "protects "):
			// protects Type.mutexField: f1, f2
			rest := strings.TrimSpace(strings.TrimPrefix(line, "protects "))
			parts := strings.SplitN(rest, ":", 2)
			tm := strings.SplitN(strings.TrimSpace(parts[0]), ".", 2)
			if len(parts) != 2 || len(tm) != 2 {
				return fmt.Errorf("%s:%d: bad protects clause", path, ln)
			}
			for _, f := range strings.Split(parts[1], ",") {
				db.Protects[pkgPath+"."+tm[0]+"."+strings.TrimSpace(f)] = tm[1]
			}
			cur = nil
		case strings.HasPrefix(line, "ginv "):
			// ginv [v1 v2 ...]: expr   — invariant over package-level variables
			rest := strings.TrimSpace(strings.TrimPrefix(line, "ginv "))
			if !strings.HasPrefix(rest, "[") || !strings.Contains(rest, "]:") {
				return fmt.Errorf("%s:%d: bad ginv clause", path, ln)
			}
			k := strings.Index(rest, "]:")
			cl, err := mk(rest[k+2:], ln)
			if err != nil {
				return err
			}
			db.GInv[pkgPath] = append(db.GInv[pkgPath], GInv{Vars: strings.Fields(rest[1:k]), Cl: cl})
			cur = nil
		case strings.HasPrefix(line, "nonnil "):
			db.NonNil[pkgPath] = append(db.NonNil[pkgPath], strings.Fields(strings.TrimPrefix(line, "nonnil "))...)
			cur = nil
		case strings.HasPrefix(line, "lockchan "):
			db.LockChans[pkgPath+"."+strings.TrimSpace(strings.TrimPrefix(line, "lockchan "))] = true
		default:
			if cur == nil {
				return fmt.Errorf("%s:%d: clause outside a contract: %s", path, ln, line)
			}
			word := line
			rest := ""
			if k := strings.IndexAny(line, " \t"); k > 0 {
				word, rest = line[:k], strings.TrimSpace(line[k+1:])
			}
			switch word {
			case "requires", "ensures", "assumes", "ensures-assumed", "ensures-local":
				cl, err := mk(rest, ln)
				if err != nil {
					return err
				}
				switch word {
				case "requires":
					cur.Requires = append(cur.Requires, cl)
				case "ensures":
					cur.Ensures = append(cur.Ensures, cl)
				case "ensures-assumed":
					cur.EnsuresAssumed = append(cur.EnsuresAssumed, cl)
				case "ensures-local":
					cur.EnsuresLocal = append(cur.EnsuresLocal, cl)
				default:
					cur.Assumes = append(cur.Assumes, cl)
				}
			case "modifies":
				if rest == "*" {
					cur.ModifiesAll = true
					break
				}
				for _, a := range splitArgs(rest) {
					cl, err := mk(a, ln)
					if err != nil {
						return err
					}
					cur.Modifies = append(cur.Modifies, cl)
				}
			case "property":
				cur.Props = append(cur.Props, strings.Fields(rest)...)
			case "inline":
				cur.Inline = true
			case "shutdown":
				cur.Shutdown = append(cur.Shutdown, strings.Fields(rest)...)
			case "mayblock":
				cur.MayBlock = append(cur.MayBlock, strings.Fields(rest)...)
			case "invokes-on-success":
				cur.InvokesOnSuccess = append(cur.InvokesOnSuccess, strings.Fields(rest)...)
			case "callsback":
				cur.Callsback = append(cur.Callsback, strings.Fields(rest)...)
			case "maypanic":
				cur.MayPanic = true
			case "opaque-interior-pointers":
				cur.OpaqueInterior = strings.Trim(rest, "\"")
				if cur.OpaqueInterior == "" {
					cur.OpaqueInterior = "unspecified"
				}
			case "pure":
				cur.Pure = true
				cur.Det = true
			case "det":
				cur.Det = true
			case "readonly":
				// modifies nothing the caller can see (checked as an empty frame); unlike `pure`
				// the result need not be a function of the arguments (network, time, ...)
				cur.Pure = true
			case "fresh":
				cur.Fresh = true
			case "nobody":
				cur.NoBody = true
			case "trusted":
				cur.Trusted = strings.Trim(rest, "\"")
				if cur.Trusted == "" {
					cur.Trusted = "unspecified"
				}
			case "loop":
				m := reLoop.FindStringSubmatch(line)
				if m == nil {
					return fmt.Errorf("%s:%d: bad loop clause: %s", path, ln, line)
				}
				n, _ := strconv.Atoi(m[1])
				ls := cur.Loops[n]
				if ls == nil {
					ls = &LoopSpec{}
					cur.Loops[n] = ls
				}
				body := m[3]
				gname := ""
				if m[2] == "exhaustive" {
					ls.Exhaustive = true
					break
				}
				if m[2] == "iteration ghost" {
					parts := strings.SplitN(body, ":=", 2)
					if len(parts) != 2 {
						return fmt.Errorf("%s:%d: bad iteration ghost: %s", path, ln, line)
					}
					gname, body = strings.TrimSpace(parts[0]), parts[1]
				}
				cl, err := mk(body, ln)
				if err != nil {
					return err
				}
				switch m[2] {
				case "invariant":
					ls.Invariants = append(ls.Invariants, cl)
				case "decreases":
					ls.Decreases = &cl
				case "iteration ghost":
					ls.IterGhosts = append(ls.IterGhosts, GhostDecl{Name: gname, Init: cl})
				case "iteration ensures":
					ls.IterEnsures = append(ls.IterEnsures, cl)
				}
			case "at":
				m := reAtCall.FindStringSubmatch(line)
				if m == nil {
					return fmt.Errorf("%s:%d: bad at clause: %s", path, ln, line)
				}
				h := Hook{Kind: m[4], After: m[3] != ""}
				body := m[5]
				if h.Kind == "ghost" {
					parts := strings.SplitN(body, ":=", 2)
					if len(parts) != 2 {
						return fmt.Errorf("%s:%d: bad ghost assignment: %s", path, ln, line)
					}
					h.Var = strings.TrimSpace(parts[0])
					body = parts[1]
				}
				if h.Kind == "havoc" {
					// havoc a, b.f, ... : one hook per location
					for _, loc := range splitArgs(body) {
						hh := h
						hh.Var = strings.TrimSpace(loc)
						hh.Cl = Clause{Text: strings.TrimSpace(loc), Line: ln, File: path}
						hk := m[2]
						if d := strings.TrimSpace(m[1]); d == "recv" || d == "send" {
							hk = d + ":" + hk
						}
						cur.Hooks[hk] = append(cur.Hooks[hk], hh)
					}
					break
				}
				cl, err := mk(body, ln)
				if err != nil {
					return err
				}
				h.Cl = cl
				hk := m[2]
				if d := strings.TrimSpace(m[1]); d == "recv" || d == "send" {
					hk = d + ":" + hk
				}
				cur.Hooks[hk] = append(cur.Hooks[hk], h)
			case "ghost":
				m := reGhost.FindStringSubmatch(line)
				if m == nil {
					return fmt.Errorf("%s:%d: bad ghost decl: %s", path, ln, line)
				}
				cl, err := mk(m[2], ln)
				if err != nil {
					return err
				}
				cur.Ghosts = append(cur.Ghosts, GhostDecl{Name: m[1], Init: cl})
			default:
				return fmt.Errorf("%s:%d: unknown clause %q", path, ln, word)
			}
		}
	}
	return nil
}

func specSort(s string) string {
	switch s {
	case "bool":
		return SBool
	case "val":
		return "val"
	}
	return SInt
}

// funcKey builds the package-relative key of an ssa function as used in contracts.
func funcKey(fn *ssa.Function) string {
	if fn.Parent() != nil {
		// anonymous function: Parent$N
		return funcKey(fn.Parent()) + strings.TrimPrefix(fn.Name(), fn.Parent().Name())
	}
	if recv := fn.Signature.Recv(); recv != nil {
		t := recv.Type()
		star := ""
		if p, ok := t.(*types.Pointer); ok {
			star = "*"
			t = p.Elem()
		}
		name := ""
		if n, ok := types.Unalias(t).(*types.Named); ok {
			name = n.Obj().Name()
		} else {
			name = t.String()
		}
		return "(" + star + name + ")." + fn.Name()
	}
	return fn.Name()
}

func funcPkgPath(fn *ssa.Function) string {
	if fn.Pkg != nil {
		return fn.Pkg.Pkg.Path()
	}
	if fn.Parent() != nil {
		return funcPkgPath(fn.Parent())
	}
	if recv := fn.Signature.Recv(); recv != nil {
		t := recv.Type()
		if p, ok := t.(*types.Pointer); ok {
			t = p.Elem()
		}
		if n, ok := types.Unalias(t).(*types.Named); ok && n.Obj().Pkg() != nil {
			return n.Obj().Pkg().Path()
		}
	}
	if o := fn.Object(); o != nil && o.Pkg() != nil {
		return o.Pkg().Path()
	}
	return ""
}

func (db *SpecDB) lookup(fn *ssa.Function) *Contract {
	if fn == nil {
		return nil
	}
	if o := fn.Origin(); o != nil {
		fn = o
	}
	return db.Contracts[funcPkgPath(fn)+"::"+funcKey(fn)]
}

func (db *SpecDB) keysFor(pkgPath string) []string {
	var out []string
	for id, c := range db.Contracts {
		if c.PkgPath == pkgPath && !c.Extern {
			out = append(out, id)
		}
	}
	sort.Strings(out)
	return out
}

// ---------------------------------------------------------------------------
// evaluation

type SpecEnv struct {
	boundNames  map[string]string // contract identifier -> name of the variable it was bound to (rename fallback)
	st          *State
	old         *State
	vars        map[string]Val
	results     []Val
	resNames    []string
	fn          *ssa.Function
	pkg         *types.Package
	locals      func(name string) (Val, bool)
	loopOrd     int             // ordinal of the loop whose clause is being evaluated (iteration clauses)
	scope       *ssa.BasicBlock // program point of the clause: only variables declared in dominating blocks are in scope
	inOld       bool
	freeVars    map[string]*PtrInfo // captured variables of a closure under verification
	entryParams map[string]Val      // entry values of the parameters (what old(p) means; also p itself in pre/postconditions)
	callSite    bool                // evaluating a callee's postcondition as an assumption
	noRename    bool
	clause      string // text of the clause being evaluated (key of the recorded bindings)
	newThread   bool   // evaluating a goroutine's precondition at its go statement: the new thread holds no lock
	freshLo     Term   // call site: objects allocated by the callee are above this
	facts       []Term
	what        string
}

type specError struct{ msg string }

func specFail(format string, a ...any) { panic(specError{fmt.Sprintf(format, a...)}) }

func (env *SpecEnv) cur() *State {
	if env.inOld {
		if env.old == nil {
			specFail("old() not available here")
		}
		return env.old
	}
	return env.st
}

func boolVal(t Term) Val { return Val{T: types.Typ[types.Bool], L: []Term{t}} }
func intVal(t Term) Val  { return Val{T: types.Typ[types.UntypedInt], L: []Term{t}} }

func (env *SpecEnv) evalBool(e *SpecExpr) Term {
	v := env.eval(e)
	if len(v.L) != 1 || v.L[0].Sort != SBool {
		specFail("boolean expected in %q", e.Text)
	}
	return v.L[0]
}

func (env *SpecEnv) eval(e *SpecExpr) Val {
	if env.clause == "" && e.Text != "" {
		env.clause = e.Text
		defer func() { env.clause = "" }()
	}
	switch e.Op {
	case "==>":
		l := env.evalBool(e.L)
		if l.IsFalse() {
			return boolVal(TTrue)
		}
		// a local variable named on the right may not be in scope on this path: the
		// implication then holds only if its left side is false here
		r := func() (r Term) {
			defer func() {
				if x := recover(); x != nil {
					if se, ok := x.(specError); ok && strings.HasPrefix(se.msg, "unknown identifier") {
						r = TFalse
						return
					}
					panic(x)
				}
			}()
			return env.evalBool(e.R)
		}()
		return boolVal(Implies(l, r))
	case "<==>":
		return boolVal(Iff(env.evalBool(e.L), env.evalBool(e.R)))
	}
	return env.evalGo(e.Go)
}

func (env *SpecEnv) lookupIdent(name string) (Val, bool) {
	if v, ok := env.vars[name]; ok {
		return v, true
	}
	if env.inOld {
		if v, ok := env.entryParams[name]; ok {
			return v, true
		}
	}
	if p, ok := env.freeVars[name]; ok {
		return env.cur().loadQuiet(p, env), true
	}
	switch name {
	case "true":
		return boolVal(TTrue), true
	case "false":
		return boolVal(TFalse), true
	case "nil":
		return Val{T: types.Typ[types.UntypedNil], L: []Term{I(0)}}, true
	case "result":
		if len(env.results) == 1 {
			return env.results[0], true
		}
		if len(env.results) == 0 {
			specFail("no result available")
		}
		specFail("`result` is ambiguous for %d results; use result0..", len(env.results))
	}
	if strings.HasPrefix(name, "result") {
		if n, err := strconv.Atoi(name[6:]); err == nil {
			if n >= len(env.results) {
				specFail("%s: function has %d results", name, len(env.results))
			}
			return env.results[n], true
		}
	}
	for i, rn := range env.resNames {
		if rn == name && i < len(env.results) {
			return env.results[i], true
		}
	}
	if !env.inOld {
		if g, ok := env.st.ghost[name]; ok {
			return g, true
		}
	} else if env.old != nil {
		if g, ok := env.old.ghost[name]; ok {
			return g, true
		}
	}
	if env.locals != nil && !env.inOld {
		if v, ok := env.locals(name); ok {
			return v, true
		}
	}
	if v, ok := env.entryParams[name]; ok {
		return v, true
	}
	if env.pkg != nil {
		if obj := env.pkg.Scope().Lookup(name); obj != nil {
			return env.objVal(obj)
		}
	}
	if obj := types.Universe.Lookup(name); obj != nil {
		if c, ok := obj.(*types.Const); ok {
			return constVal(env.st, c.Type(), c.Val()), true
		}
	}
	// the contract may use a name the code has since renamed (see bindings.go)
	if !env.noRename && env.fn != nil {
		if alt := env.st.ctx.eng.renamedIdent(env.fn, name); alt != "" && alt != name {
			env.noRename = true
			v, ok := env.lookupIdent(alt)
			env.noRename = false
			if ok {
				env.st.ctx.note("contract name %q in %s bound to the renamed variable %q (same definition: /verif/bindings.json)", name, funcKey(env.fn), alt)
				return v, true
			}
		}
	}
	return Val{}, false
}

func (env *SpecEnv) objVal(obj types.Object) (Val, bool) {
	switch o := obj.(type) {
	case *types.Const:
		return constVal(env.st, o.Type(), o.Val()), true
	case *types.Var:
		// package-level variable: load from its global cell
		g := env.st.ctx.eng.globalFor(o)
		if g == nil {
			specFail("global %s not found", o.Name())
		}
		p := env.st.globalPtr(g)
		return env.cur().loadQuiet(p.P, env), true
	}
	return Val{}, false
}

func constVal(st *State, t types.Type, cv constant.Value) Val {
	switch cv.Kind() {
	case constant.Bool:
		return Val{T: t, L: []Term{B(constant.BoolVal(cv))}}
	case constant.Int:
		n, ok := constant.Int64Val(cv)
		if ok {
			return Val{T: t, L: []Term{I(n)}}
		}
		bi, _ := newBig(cv.ExactString())
		return Val{T: t, L: []Term{IBig(bi)}}
	case constant.String:
		return Val{T: t, L: []Term{st.ctx.strLit(constant.StringVal(cv), st)}}
	}
	specFail("unsupported constant kind %v", cv.Kind())
	return Val{}
}

// loadQuiet loads through a pointer without adding facts to the path condition;
// type-invariant facts are collected in env.facts instead.
func (st *State) loadQuiet(p *PtrInfo, env *SpecEnv) Val {
	root, off, n, t := st.ptrLeaves(p)
	v := Val{T: t, L: make([]Term, n)}
	switch p.Kind {
	case pkCell:
		c, ok := st.cells[p.Cell]
		if !ok {
			specFail("cell not live")
		}
		copy(v.L, c.L[off:off+n])
		if n == 1 {
			if pi, ok := c.P[off]; ok {
				v.P = pi
			}
		}
	case pkHeap:
		ls := leavesOf(root)
		for i := 0; i < n; i++ {
			l := ls[off+i]
			h := st.heapTerm(heapKey(root, l.Path), l.Sort, false)
			v.L[i] = Select(h, p.Ref)
		}
	case pkElem:
		ls := leavesOf(root)
		for i := 0; i < n; i++ {
			l := ls[off+i]
			h := st.heapTerm(elemKey(root, l.Path), l.Sort, true)
			v.L[i] = Select(Select(h, p.Ref), p.Idx)
		}
	}
	st.decorate(&v)
	if p.Kind != pkCell && env != nil {
		env.facts = append(env.facts, st.factsOf(v)...)
		env.facts = append(env.facts, st.oldRefFacts(p, root, off, n)...)
	}
	return v
}

func (env *SpecEnv) evalGo(e ast.Expr) Val {
	switch x := e.(type) {
	case *ast.ParenExpr:
		return env.evalGo(x.X)
	case *ast.Ident:
		v, ok := env.lookupIdent(x.Name)
		if !ok {
			specFail("unknown identifier %q", x.Name)
		}
		return v
	case *ast.BasicLit:
		switch x.Kind {
		case token.INT:
			bi, ok := newBig(x.Value)
			if !ok {
				specFail("bad int literal %s", x.Value)
			}
			return intVal(IBig(bi))
		case token.STRING:
			s, err := strconv.Unquote(x.Value)
			if err != nil {
				specFail("bad string literal %s", x.Value)
			}
			return Val{T: types.Typ[types.String], L: []Term{env.st.ctx.strLit(s, env.st)}}
		case token.CHAR:
			s, _ := strconv.Unquote(x.Value)
			return intVal(I(int64([]rune(s)[0])))
		}
	case *ast.UnaryExpr:
		switch x.Op {
		case token.NOT:
			return boolVal(Not(env.evalGo(x.X).term()))
		case token.SUB:
			return intVal(Neg(env.evalGo(x.X).term()))
		case token.AND:
			return env.addrOf(x.X)
		}
	case *ast.StarExpr:
		v := env.evalGo(x.X)
		if v.P == nil {
			specFail("dereference of non-pointer")
		}
		return env.cur().loadQuiet(v.P, env)
	case *ast.BinaryExpr:
		return env.evalBinary(x)
	case *ast.SelectorExpr:
		return env.evalSelector(x)
	case *ast.IndexExpr:
		return env.evalIndex(x)
	case *ast.SliceExpr:
		base := env.evalGo(x.X)
		if _, ok := base.T.Underlying().(*types.Slice); !ok {
			specFail("slice expression on non-slice")
		}
		lo := I(0)
		hi := base.L[2]
		if x.Low != nil {
			lo = env.evalGo(x.Low).term()
		}
		if x.High != nil {
			hi = env.evalGo(x.High).term()
		}
		return Val{T: base.T, L: []Term{base.L[0], Add(base.L[1], lo), Sub(hi, lo), Sub(base.L[3], lo)}}
	case *ast.CallExpr:
		return env.evalCall(x)
	}
	specFail("unsupported spec expression %T", e)
	return Val{}
}

func (env *SpecEnv) addrOf(e ast.Expr) Val {
	switch x := e.(type) {
	case *ast.ParenExpr:
		return env.addrOf(x.X)
	case *ast.SelectorExpr:
		base := env.evalGo(x.X)
		if base.P == nil {
			specFail("&x.f: x is not a pointer")
		}
		st, ok := base.P.Root.Underlying().(*types.Struct)
		_ = st
		_, _, t := pathRange(base.P.Root, base.P.Path)
		sst, ok := t.Underlying().(*types.Struct)
		if !ok {
			specFail("&x.f on non-struct")
		}
		for i := 0; i < sst.NumFields(); i++ {
			if sst.Field(i).Name() == x.Sel.Name {
				np := *base.P
				np.Path = append(append([]int(nil), base.P.Path...), i)
				ref := np.Ref
				return Val{T: types.NewPointer(sst.Field(i).Type()), L: []Term{ref}, P: &np}
			}
		}
		specFail("no field %s", x.Sel.Name)
	case *ast.Ident:
		// a captured variable: the closure holds its address
		st := env.cur()
		name := x.Name
		if rn := st.ctx.eng.renamedIdent(st.fr.fn, name); rn != "" {
			name = rn
		}
		for _, fv := range st.fr.fn.FreeVars {
			if fv.Name() == name {
				if v, ok := st.fr.regs[fv]; ok && v.P != nil {
					return v
				}
			}
		}
		specFail("&%s: not a captured variable", x.Name)
	}
	specFail("unsupported & operand")
	return Val{}
}

func (env *SpecEnv) evalSelector(x *ast.SelectorExpr) Val {
	// qualified identifier pkg.Name ?
	if id, ok := x.X.(*ast.Ident); ok {
		if _, isVar := env.lookupIdent(id.Name); !isVar && env.pkg != nil {
			for _, imp := range env.pkg.Imports() {
				if imp.Name() == id.Name {
					obj := imp.Scope().Lookup(x.Sel.Name)
					if obj == nil {
						specFail("%s.%s not found", id.Name, x.Sel.Name)
					}
					v, ok := env.objVal(obj)
					if !ok {
						specFail("%s.%s is not a value", id.Name, x.Sel.Name)
					}
					return v
				}
			}
			specFail("unknown identifier %q", id.Name)
		}
	}
	base := env.evalGo(x.X)
	return env.fieldOf(base, x.Sel.Name)
}

func (env *SpecEnv) fieldOf(base Val, name string) Val {
	if base.T == nil {
		specFail("selector on untyped value")
	}
	t := base.T
	if pt, ok := t.Underlying().(*types.Pointer); ok {
		// auto-deref: address the field through the pointer
		if base.P == nil {
			base.P = &PtrInfo{Kind: pkHeap, Root: pt.Elem(), Ref: base.L[0]}
		}
		_, _, cur := pathRange(base.P.Root, base.P.Path)
		st, ok := cur.Underlying().(*types.Struct)
		if !ok {
			specFail("field %s of non-struct %s", name, cur)
		}
		for i := 0; i < st.NumFields(); i++ {
			if st.Field(i).Name() == name {
				np := *base.P
				np.Path = append(append([]int(nil), base.P.Path...), i)
				return env.cur().loadQuiet(&np, env)
			}
		}
		// embedded promotion (one level)
		for i := 0; i < st.NumFields(); i++ {
			if st.Field(i).Embedded() {
				np := *base.P
				np.Path = append(append([]int(nil), base.P.Path...), i)
				inner := env.cur().loadQuiet(&np, env)
				if _, ok := inner.T.Underlying().(*types.Struct); ok {
					iv := Val{T: types.NewPointer(inner.T), L: []Term{base.L[0]}, P: &np}
					func() {
						defer func() { recover() }()
					}()
					return env.fieldOf(iv, name)
				}
			}
		}
		specFail("no field %s in %s", name, cur)
	}
	if st, ok := t.Underlying().(*types.Struct); ok {
		if _, sp := specialLeaves(t); sp {
			specFail("field of abstracted type %s", t)
		}
		for i := 0; i < st.NumFields(); i++ {
			if st.Field(i).Name() == name {
				off, n := fieldRange(t, i)
				v := Val{T: st.Field(i).Type(), L: base.L[off : off+n]}
				env.st.decorate(&v)
				return v
			}
		}
		for i := 0; i < st.NumFields(); i++ {
			if st.Field(i).Embedded() {
				off, n := fieldRange(t, i)
				inner := Val{T: st.Field(i).Type(), L: base.L[off : off+n]}
				env.st.decorate(&inner)
				var res Val
				ok := func() (ok bool) {
					defer func() {
						if r := recover(); r != nil {
							if _, is := r.(specError); is {
								ok = false
								return
							}
							panic(r)
						}
					}()
					res = env.fieldOf(inner, name)
					return true
				}()
				if ok {
					return res
				}
			}
		}
		specFail("no field %s in %s", name, t)
	}
	specFail("selector .%s on %s", name, t)
	return Val{}
}

func (env *SpecEnv) evalIndex(x *ast.IndexExpr) Val {
	base := env.evalGo(x.X)
	idx := env.evalGo(x.Index)
	switch u := base.T.Underlying().(type) {
	case *types.Slice:
		p := &PtrInfo{Kind: pkElem, Root: u.Elem(), Ref: base.L[0], Idx: Add(base.L[1], idx.term())}
		return env.cur().loadQuiet(p, env)
	case *types.Map:
		return env.cur().mapLookup(base, idx, false, env)
	}
	specFail("index on %s", base.T)
	return Val{}
}

func sameSortCompare(a, b Val) (Term, Term) {
	if len(a.L) == 1 && len(b.L) == 1 {
		return a.L[0], b.L[0]
	}
	specFail("comparison of composite values needs equal shapes")
	return Term{}, Term{}
}

func (env *SpecEnv) evalEq(a, b Val) Term {
	// nil comparisons against composite kinds
	isNil := func(v Val) bool {
		bt, ok := v.T.(*types.Basic)
		return ok && bt.Kind() == types.UntypedNil
	}
	if isNil(b) && !isNil(a) {
		return nilTest(a)
	}
	if isNil(a) && !isNil(b) {
		return nilTest(b)
	}
	if len(a.L) != len(b.L) {
		specFail("== on values of different shape (%v vs %v)", a.T, b.T)
	}
	var cs []Term
	for i := range a.L {
		if a.L[i].Sort != b.L[i].Sort {
			specFail("== on leaves of different sort")
		}
		cs = append(cs, Eq(a.L[i], b.L[i]))
	}
	return And(cs...)
}

func nilTest(v Val) Term {
	switch v.T.Underlying().(type) {
	case *types.Slice:
		return Eq(v.L[0], I(0))
	case *types.Interface:
		return Eq(v.L[0], I(0))
	case *types.Pointer, *types.Map, *types.Chan, *types.Signature:
		return Eq(v.L[0], I(0))
	}
	if len(v.L) == 1 && v.L[0].Sort == SInt {
		return Eq(v.L[0], I(0))
	}
	specFail("nil comparison on %s", v.T)
	return Term{}
}

func (env *SpecEnv) evalBinary(x *ast.BinaryExpr) Val {
	switch x.Op {
	case token.LAND:
		return boolVal(And(env.evalGo(x.X).term(), env.evalGo(x.Y).term()))
	case token.LOR:
		return boolVal(Or(env.evalGo(x.X).term(), env.evalGo(x.Y).term()))
	}
	a := env.evalGo(x.X)
	b := env.evalGo(x.Y)
	switch x.Op {
	case token.EQL:
		return boolVal(env.evalEq(a, b))
	case token.NEQ:
		return boolVal(Not(env.evalEq(a, b)))
	}
	at, bt := a.term(), b.term()
	switch x.Op {
	case token.LSS:
		return boolVal(Lt(at, bt))
	case token.LEQ:
		return boolVal(Le(at, bt))
	case token.GTR:
		return boolVal(Gt(at, bt))
	case token.GEQ:
		return boolVal(Ge(at, bt))
	case token.ADD:
		return intVal(Add(at, bt))
	case token.SUB:
		return intVal(Sub(at, bt))
	case token.MUL:
		return intVal(Mul(at, bt))
	case token.QUO:
		return intVal(app(SInt, "div", at, bt))
	case token.REM:
		return intVal(app(SInt, "mod", at, bt))
	}
	specFail("unsupported operator %s", x.Op)
	return Val{}
}

func newBig(s string) (*bigInt, bool) { return parseBig(s) }

func (env *SpecEnv) evalCall(x *ast.CallExpr) Val {
	fname := ""
	switch f := x.Fun.(type) {
	case *ast.Ident:
		fname = f.Name
	case *ast.SelectorExpr:
		// conversion through a qualified type name, e.g. multicodec.Code(x)
		if id, ok := f.X.(*ast.Ident); ok && env.pkg != nil {
			for _, imp := range env.pkg.Imports() {
				if imp.Name() == id.Name {
					if tn, ok := imp.Scope().Lookup(f.Sel.Name).(*types.TypeName); ok && len(x.Args) == 1 {
						v := env.evalGo(x.Args[0])
						v.T = tn.Type()
						return v
					}
				}
			}
		}
		specFail("method calls are not allowed in specs: %s", exprString(x.Fun))
	default:
		specFail("unsupported call in spec")
	}
	arg := func(i int) Val {
		if i >= len(x.Args) {
			specFail("%s: missing argument %d", fname, i)
		}
		return env.evalGo(x.Args[i])
	}
	switch fname {
	case "old":
		if env.inOld {
			return arg(0)
		}
		env.inOld = true
		defer func() { env.inOld = false }()
		return arg(0)
	case "implies":
		return boolVal(Implies(arg(0).term(), arg(1).term()))
	case "iff":
		return boolVal(Iff(arg(0).term(), arg(1).term()))
	case "ite":
		c := arg(0).term()
		a, b := arg(1), arg(2)
		if len(a.L) != len(b.L) {
			specFail("ite branches differ in shape")
		}
		out := Val{T: a.T, L: make([]Term, len(a.L))}
		for i := range a.L {
			out.L[i] = Ite(c, a.L[i], b.L[i])
		}
		return out
	case "len":
		v := arg(0)
		switch v.T.Underlying().(type) {
		case *types.Slice:
			return intVal(v.L[2])
		case *types.Basic:
			if isString(v.T) {
				return intVal(env.st.strLen(v.L[0]))
			}
		case *types.Map:
			return intVal(env.cur().mapLen(v))
		}
		specFail("len of %s", v.T)
	case "cap":
		v := arg(0)
		if _, ok := v.T.Underlying().(*types.Slice); ok {
			return intVal(v.L[3])
		}
		specFail("cap of %s", v.T)
	case "min":
		return intVal(Min(arg(0).term(), arg(1).term()))
	case "max":
		a, b := arg(0).term(), arg(1).term()
		return intVal(Ite(Ge(a, b), a, b))
	case "int", "int64", "int32", "uint64", "uint32", "uint", "uint8", "byte", "int8", "int16", "uint16":
		v := arg(0)
		return intVal(v.term()) // spec integers are mathematical: conversions are the identity
	case "forall", "exists":
		if len(x.Args) != 4 {
			specFail("%s(i, lo, hi, P) expected", fname)
		}
		id, ok := x.Args[0].(*ast.Ident)
		if !ok {
			specFail("%s: first argument must be an identifier", fname)
		}
		lo, hi := arg(1).term(), arg(2).term()
		bv := Term{sym(env.st.ctx.freshName("q!" + id.Name)), SInt}
		saved, had := env.vars[id.Name]
		env.vars[id.Name] = intVal(bv)
		savedFacts := env.facts
		body := env.evalGo(x.Args[3]).term()
		env.facts = savedFacts // facts about bound-variable loads are dropped
		if had {
			env.vars[id.Name] = saved
		} else {
			delete(env.vars, id.Name)
		}
		rng := And(Le(lo, bv), Lt(bv, hi))
		if fname == "forall" {
			// nested universal quantifiers are merged into one binder list, so that the solver can
			// choose a (multi-)pattern over both variables
			if strings.HasPrefix(body.S, "(forall (") {
				if k := strings.Index(body.S, ")) "); k > 0 {
					binders := body.S[len("(forall (") : k+1]
					inner := body.S[k+3 : len(body.S)-1]
					return boolVal(Term{fmt.Sprintf("(forall ((%s Int) %s) (=> %s %s))", bv.S, binders, rng.S, inner), SBool})
				}
			}
			return boolVal(Term{fmt.Sprintf("(forall ((%s Int)) %s)", bv.S, Implies(rng, body).S), SBool})
		}
		return boolVal(Term{fmt.Sprintf("(exists ((%s Int)) %s)", bv.S, And(rng, body).S), SBool})
	case "all", "some":
		// all(x, P): P for every integer x (unbounded quantifier; x also stands for references and string ids)
		if len(x.Args) != 2 {
			specFail("%s(x, P) expected", fname)
		}
		id, ok := x.Args[0].(*ast.Ident)
		if !ok {
			specFail("%s: first argument must be an identifier", fname)
		}
		bv := Term{sym(env.st.ctx.freshName("q!" + id.Name)), SInt}
		saved, had := env.vars[id.Name]
		env.vars[id.Name] = intVal(bv)
		savedFacts := env.facts
		body := env.evalGo(x.Args[1]).term()
		env.facts = savedFacts
		if had {
			env.vars[id.Name] = saved
		} else {
			delete(env.vars, id.Name)
		}
		q := "forall"
		if fname == "some" {
			q = "exists"
		}
		return boolVal(Term{fmt.Sprintf("(%s ((%s Int)) %s)", q, bv.S, body.S), SBool})
	case "held":
		if env.newThread {
			return boolVal(TFalse)
		}
		v := env.addrOrVal(x.Args[0])
		if _, isCh := v.T.Underlying().(*types.Chan); isCh {
			return boolVal(Select(env.cur().heapTerm("CH#held", SBool, false), v.L[0]))
		}
		if _, isPtr := v.T.Underlying().(*types.Pointer); isPtr && v.P != nil {
			v = env.cur().loadQuiet(v.P, env)
		}
		if len(v.L) < 1 || v.L[0].Sort != SBool {
			specFail("held(): not a mutex")
		}
		if len(v.L) == 2 && v.L[1].Sort == SInt {
			// RWMutex: write-held or read-held by this thread
			return boolVal(Or(v.L[0], Gt(v.L[1], I(0))))
		}
		return boolVal(v.L[0])
	case "content":
		v := arg(0)
		return intVal(env.cur().bytesOf(v))
	case "suffix":
		// suffix(a, b, k): slice a is b[k:]
		a, b, k := arg(0), arg(1), arg(2).term()
		if len(a.L) != 4 || len(b.L) != 4 {
			specFail("suffix() needs two slices")
		}
		return boolVal(And(Eq(a.L[0], b.L[0]), Eq(a.L[1], Add(b.L[1], k)), Eq(a.L[2], Sub(b.L[2], k))))
	case "elemOrZero":
		// elemOrZero(s, i): s[i] if 0 <= i < len(s), else the zero value of the element type
		sv, iv := arg(0), arg(1).term()
		sl, ok := sv.T.Underlying().(*types.Slice)
		if !ok {
			specFail("elemOrZero needs a slice")
		}
		pp := &PtrInfo{Kind: pkElem, Root: sl.Elem(), Ref: sv.L[0], Idx: Add(sv.L[1], iv)}
		ev := env.cur().loadQuiet(pp, env)
		z := zeroVal(sl.Elem())
		in := And(Le(I(0), iv), Lt(iv, sv.L[2]))
		out := Val{T: sl.Elem(), L: make([]Term, len(ev.L))}
		for i := range ev.L {
			out.L[i] = Ite(in, ev.L[i], z.L[i])
		}
		return out
	case "zero":
		// zero("[]pkg.T"): the zero value of a type written as a Go type expression
		lit, ok := x.Args[0].(*ast.BasicLit)
		if !ok {
			specFail("zero needs a string literal type expression")
		}
		src, _ := strconv.Unquote(lit.Value)
		te, err := parser.ParseExpr(src)
		if err != nil {
			specFail("zero(%q): %v", src, err)
		}
		return zeroVal(env.resolveType(te))
	case "nonnilelems":
		// nonnilelems(s): no element of s is nil; quantified over absolute positions of the
		// backing array, so that re-slicing needs no index arithmetic
		sv := arg(0)
		sl, ok := sv.T.Underlying().(*types.Slice)
		if !ok {
			specFail("nonnilelems needs a slice")
		}
		els := leavesOf(sl.Elem())
		h := env.cur().heapTerm(elemKey(sl.Elem(), els[0].Path), els[0].Sort, true)
		bv := Term{sym(env.st.ctx.freshName("q!abs")), SInt}
		rng := And(Le(sv.L[1], bv), Lt(bv, Add(sv.L[1], sv.L[2])))
		body := Ne(Select(Select(h, sv.L[0]), bv), I(0))
		return boolVal(Term{fmt.Sprintf("(forall ((%s Int)) %s)", bv.S, Implies(rng, body).S), SBool})
	case "wg":
		// wg(x): the ghost counter of a sync.WaitGroup
		v := env.addrOrVal(x.Args[0])
		if len(v.L) != 1 || v.L[0].Sort != SInt {
			specFail("wg(): not a WaitGroup")
		}
		return intVal(v.L[0])
	case "chanRef":
		return intVal(arg(0).L[0])
	case "sliceArr":
		v := arg(0)
		if len(v.L) != 4 {
			specFail("sliceArr needs a slice")
		}
		return intVal(v.L[0])
	case "typetag":
		return intVal(arg(0).L[0])
	case "as":
		// as(x, "*pkg.T"): view an interface payload (or reference) as a pointer of that type
		v := arg(0)
		lit, ok := x.Args[1].(*ast.BasicLit)
		if !ok {
			specFail("as needs a string literal type name")
		}
		name, _ := strconv.Unquote(lit.Value)
		tag := env.st.ctx.eng.tagByName(name)
		t := env.st.ctx.eng.typeOfTag(tag)
		ref := v.L[len(v.L)-1]
		out := Val{T: t, L: []Term{ref}}
		env.st.decorate(&out)
		return out
	case "catAll":
		v := arg(0)
		return intVal(env.cur().catAll(v))
	case "strof":
		// strof(b): the string string(b) of a byte slice b (what the conversion yields in the code)
		v := arg(0)
		st := env.cur()
		c := st.bytesOf(v)
		f := st.ctx.declareFun("bytes2str", []string{SInt}, SInt)
		return intVal(Term{fmt.Sprintf("(%s %s)", f, c.S), SInt})
	case "str":
		// string id of a string-typed value (identity on the leaf)
		return intVal(arg(0).term())
	case "typeis":
		// typeis(x, "pkg.T") / typeis(x, "*pkg.T")
		v := arg(0)
		lit, ok := x.Args[1].(*ast.BasicLit)
		if !ok {
			specFail("typeis needs a string literal type name")
		}
		name, _ := strconv.Unquote(lit.Value)
		tag := env.st.ctx.eng.tagByName(name)
		return boolVal(Eq(v.L[0], I(tag)))
	case "tagof":
		// tagof("pkg.T"): the type tag interface values of dynamic type T carry (what typetag(x) yields for them)
		lit, ok := x.Args[0].(*ast.BasicLit)
		if !ok {
			specFail("tagof needs a string literal type name")
		}
		name, _ := strconv.Unquote(lit.Value)
		return intVal(I(env.st.ctx.eng.tagByName(name)))
	case "payload":
		v := arg(0)
		if len(v.L) != 2 {
			specFail("payload() of non-interface")
		}
		return intVal(v.L[1])
	case "count":
		lit, ok := x.Args[0].(*ast.BasicLit)
		if !ok {
			specFail("count needs a string literal event name")
		}
		name, _ := strconv.Unquote(lit.Value)
		return intVal(env.cur().countEvents(name))
	case "visited":
		// visited(m): how many keys the current range over map variable m has handed out
		id, ok := x.Args[0].(*ast.Ident)
		if !ok {
			specFail("visited needs the ranged map variable")
		}
		vname := id.Name
		func() {
			// the map variable may have been renamed: resolve it as any other identifier and use the
			// name of the variable it is bound to
			defer func() { recover() }()
			env.evalGo(id)
		}()
		if rn, ok := env.boundNames[id.Name]; ok {
			vname = rn
		}
		g, ok := env.cur().ghost["$visited!"+vname]
		if !ok {
			specFail("unknown identifier: no range over %s in progress", id.Name)
		}
		return g
	case "visitedkey":
		// visitedkey(m, k): the current range over map variable m has already handed out key k
		var id *ast.Ident
		switch a := x.Args[0].(type) {
		case *ast.Ident:
			id = a
		case *ast.SelectorExpr:
			id = a.Sel
		default:
			specFail("visitedkey needs the ranged map variable or field")
		}
		vname := id.Name
		if a, isIdent := x.Args[0].(*ast.Ident); isIdent {
			func() {
				defer func() { recover() }()
				env.evalGo(a)
			}()
			if rn, ok := env.boundNames[a.Name]; ok {
				vname = rn
			}
		}
		g, ok := env.cur().ghost["$vset!"+vname]
		if !ok {
			specFail("unknown identifier: no range over %s in progress", id.Name)
		}
		kv := arg(1)
		if len(kv.L) != 1 {
			specFail("visitedkey: composite key")
		}
		return boolVal(Select(g.L[0], kv.L[0]))
	case "itercount", "iterarg":
		// events since the start of the current loop iteration (the last loop cut on this path)
		lit, ok := x.Args[0].(*ast.BasicLit)
		if !ok {
			specFail("%s needs a string literal event name", fname)
		}
		name, _ := strconv.Unquote(lit.Value)
		tr := env.cur().trace
		start := 0
		marker := fmt.Sprintf("loop*%d", env.loopOrd)
		for i, ev := range tr {
			if ev.Name == marker {
				start = i + 1
			}
		}
		evMatch := func(evName string) bool {
			return evName == name || (strings.HasSuffix(name, ":*") && strings.HasPrefix(evName, name[:len(name)-1]))
		}
		if fname == "itercount" {
			n := 0
			innerCut := false
			for _, ev := range tr[start:] {
				if evMatch(ev.Name) {
					n++
				}
				if strings.HasPrefix(ev.Name, "loop*") && ev.Name != marker {
					// an inner loop cut during this iteration: does its body produce the event?
					for produced := range env.cur().loopEvBy[ev.Name] {
						if evMatch(produced) {
							innerCut = true
						}
					}
				}
			}
			st := env.cur()
			if innerCut {
				// an inner loop was cut during this iteration and may produce the event any number of times
				t := st.ctx.freshConst("icnt!"+name, SInt)
				st.assume(Ge(t, I(int64(n))))
				return intVal(t)
			}
			return intVal(I(int64(n)))
		}
		kv, ok := arg(1).term().IntLit()
		if !ok {
			specFail("iterarg needs a literal index")
		}
		for _, ev := range tr[start:] {
			if evMatch(ev.Name) {
				if int(kv.Int64()) >= len(ev.Args) {
					specFail("event %s has %d arguments", name, len(ev.Args))
				}
				a := ev.Args[kv.Int64()]
				if a.Sort == SBool {
					return boolVal(a)
				}
				return intVal(a)
			}
		}
		specFail("unknown identifier: no event %q in this iteration", name)
	case "iterfresh":
		// iterfresh(x): the object x refers to was allocated during the current iteration of the loop this
		// clause belongs to (after the last cut of that loop on this path)
		v := arg(0)
		tr := env.cur().trace
		marker := fmt.Sprintf("loop*%d", env.loopOrd)
		var front *Term
		for i := range tr {
			if tr[i].Name == marker && len(tr[i].Args) == 1 {
				front = &tr[i].Args[0]
			}
		}
		if front == nil {
			specFail("iterfresh outside a loop clause")
		}
		return boolVal(Gt(v.L[0], *front))
	case "evarg":
		// evarg("event", k): k-th recorded argument of the first occurrence of the event on this path
		lit, ok := x.Args[0].(*ast.BasicLit)
		if !ok {
			specFail("evarg needs a string literal event name")
		}
		name, _ := strconv.Unquote(lit.Value)
		kv, ok := arg(1).term().IntLit()
		if !ok {
			specFail("evarg needs a literal index")
		}
		for _, ev := range env.cur().trace {
			if ev.Name == name {
				if int(kv.Int64()) >= len(ev.Args) {
					specFail("event %s has %d arguments", name, len(ev.Args))
				}
				a := ev.Args[kv.Int64()]
				if a.Sort == SBool {
					return boolVal(a)
				}
				return intVal(a)
			}
		}
		specFail("unknown identifier: no event %q on this path", name)
	case "before":
		a, _ := strconv.Unquote(x.Args[0].(*ast.BasicLit).Value)
		b, _ := strconv.Unquote(x.Args[1].(*ast.BasicLit).Value)
		return boolVal(B(env.cur().eventsBefore(a, b)))
	case "notafter":
		// notafter("x", "marker"): no event x occurs after the first event marker
		a, _ := strconv.Unquote(x.Args[0].(*ast.BasicLit).Value)
		b, _ := strconv.Unquote(x.Args[1].(*ast.BasicLit).Value)
		seen := false
		for _, ev := range env.cur().trace {
			if ev.Name == b {
				seen = true
			} else if seen && ev.Name == a {
				return boolVal(TFalse)
			}
		}
		return boolVal(TTrue)
	case "has":
		m := arg(0)
		k := arg(1)
		return boolVal(env.cur().mapHas(m, k))
	case "closed":
		ch := arg(0)
		return boolVal(env.cur().chanClosed(ch))
	case "chancap":
		// chancap(ch): the buffer size the channel was made with (a channel's capacity never changes)
		ch := arg(0)
		return intVal(Select(env.cur().heapTerm("CH#cap", SInt, false), ch.L[0]))
	case "isfresh":
		v := arg(0)
		if env.callSite {
			// allocated by the callee: above everything the caller had, below the new frontier,
			// distinct from the other fresh results of this call
			st := env.st
			cs := []Term{Gt(v.L[0], env.freshLo), Le(v.L[0], st.frontierTerm())}
			for _, o := range st.callFresh {
				if o.S != v.L[0].S {
					cs = append(cs, Ne(v.L[0], o))
				}
			}
			dup := false
			for _, o := range st.callFresh {
				if o.S == v.L[0].S {
					dup = true
				}
			}
			if !dup {
				st.callFresh = append(st.callFresh, v.L[0])
			}
			return boolVal(And(cs...))
		}
		a0 := env.st.ctx.declare("A0", SInt)
		return boolVal(Gt(v.L[0], a0))
	case "isold":
		v := arg(0)
		a0 := env.st.ctx.declare("A0", SInt)
		return boolVal(Le(v.L[0], a0))
	}
	if strings.HasPrefix(fname, "g_") && len(x.Args) == 1 {
		v := arg(0)
		if len(v.L) == 0 {
			specFail("%s: argument has no reference", fname)
		}
		idx := v.L[len(v.L)-1]
		if _, isSl := v.T.Underlying().(*types.Slice); isSl {
			idx = v.L[0]
		}
		h := env.cur().heapTerm("G#"+fname[2:], SInt, false)
		return intVal(Select(h, idx))
	}
	// conversion to a package-level named type?
	if env.pkg != nil {
		if tn, ok := env.pkg.Scope().Lookup(fname).(*types.TypeName); ok && len(x.Args) == 1 {
			v := arg(0)
			v.T = tn.Type()
			return v
		}
	}
	// spec function
	if sf, ok := env.st.ctx.eng.specs.Funcs[fname]; ok {
		if len(x.Args) != len(sf.Params) {
			specFail("%s: %d arguments expected", fname, len(sf.Params))
		}
		var args []Term
		var vals []Val
		for i := range x.Args {
			v := arg(i)
			vals = append(vals, v)
			if sf.PSorts[i] == "val" {
				args = append(args, Term{})
				continue
			}
			if len(v.L) != 1 {
				// composite argument: pass the first leaf of pointers/strings; slices pass content id
				if _, isSl := v.T.Underlying().(*types.Slice); isSl {
					args = append(args, env.cur().bytesOf(v))
					continue
				}
				if _, isIf := v.T.Underlying().(*types.Interface); isIf {
					// pass both leaves packed through an uninterpreted pairing
					f := env.st.ctx.declareFun("ifacepack", []string{SInt, SInt}, SInt)
					args = append(args, Term{fmt.Sprintf("(%s %s %s)", f, v.L[0].S, v.L[1].S), SInt})
					continue
				}
				specFail("%s: argument %d is composite", fname, i)
			}
			args = append(args, v.L[0])
		}
		if sf.Body != nil {
			saved := map[string]*Val{}
			for i, p := range sf.Params {
				if o, ok := env.vars[p]; ok {
					oc := o
					saved[p] = &oc
				} else {
					saved[p] = nil
				}
				if sf.PSorts[i] == "val" {
					env.vars[p] = vals[i]
				} else if sf.PSorts[i] == SBool {
					env.vars[p] = boolVal(args[i])
				} else {
					env.vars[p] = intVal(args[i])
				}
			}
			r := env.eval(sf.Body)
			for p, o := range saved {
				if o == nil {
					delete(env.vars, p)
				} else {
					env.vars[p] = *o
				}
			}
			return r
		}
		f := env.st.ctx.declareFun("sf!"+sf.Name, sf.PSorts, sf.Ret)
		var t Term
		if len(args) == 0 {
			t = Term{f, sf.Ret}
		} else {
			t = app(sf.Ret, f, args...)
		}
		if sf.Ret == SBool {
			return boolVal(t)
		}
		return intVal(t)
	}
	specFail("unknown spec function %q", fname)
	return Val{}
}

// resolveType resolves a Go type expression in the scope of the contract's package.
func (env *SpecEnv) resolveType(e ast.Expr) types.Type {
	switch x := e.(type) {
	case *ast.Ident:
		if env.pkg != nil {
			if tn, ok := env.pkg.Scope().Lookup(x.Name).(*types.TypeName); ok {
				return tn.Type()
			}
		}
		if tn, ok := types.Universe.Lookup(x.Name).(*types.TypeName); ok {
			return tn.Type()
		}
	case *ast.SelectorExpr:
		if id, ok := x.X.(*ast.Ident); ok && env.pkg != nil {
			if id.Name == env.pkg.Name() {
				if tn, ok := env.pkg.Scope().Lookup(x.Sel.Name).(*types.TypeName); ok {
					return tn.Type()
				}
			}
			for _, imp := range env.pkg.Imports() {
				if imp.Name() == id.Name {
					if tn, ok := imp.Scope().Lookup(x.Sel.Name).(*types.TypeName); ok {
						return tn.Type()
					}
				}
			}
		}
	case *ast.StarExpr:
		return types.NewPointer(env.resolveType(x.X))
	case *ast.ArrayType:
		if x.Len == nil {
			return types.NewSlice(env.resolveType(x.Elt))
		}
	}
	specFail("cannot resolve type expression %s", exprString(e))
	return nil
}

// addrOrVal evaluates an expression naming a struct field without loading it
// through the fact machinery (used for held(x.mu)).
func (env *SpecEnv) addrOrVal(e ast.Expr) Val {
	return env.evalGo(e)
}

func exprString(e ast.Expr) string {
	var b strings.Builder
	_ = printerFprint(&b, e)
	return b.String()
}
