package main

// Calls: contracts at call sites, inlining of closures, native models of
// sync/atomic/channel primitives, opaque calls.

import (
	"fmt"
	"go/token"
	"go/types"
	"sort"
	"strings"

	"golang.org/x/tools/go/ssa"
)

func fullName(fn *ssa.Function) string {
	return funcPkgPath(fn) + "::" + funcKey(fn)
}

type callTarget struct {
	fn       *ssa.Function // static or resolved callee (may be nil)
	closure  *Closure
	contract *Contract
	sig      *types.Signature
	name     string // display name
	nilRecv  Term   // for interface method calls: receiver interface is nil
	args     []Val  // receiver first
	iface    bool
}

func (e *Engine) resolveCall(st *State, c *ssa.CallCommon) callTarget {
	var t callTarget
	t.sig = c.Signature()
	if c.IsInvoke() {
		recv := st.get(c.Value)
		t.args = append(t.args, recv)
		for _, a := range c.Args {
			t.args = append(t.args, st.get(a))
		}
		t.name = c.Method.Name()
		t.iface = true
		t.nilRecv = Eq(recv.L[0], I(0))
		// statically known dynamic type?
		if n, ok := recv.L[0].IntLit(); ok && n.Sign() != 0 {
			if dt := e.typeOfTag(n.Int64()); dt != nil {
				if sel := e.prog.MethodSets.MethodSet(dt).Lookup(c.Method.Pkg(), c.Method.Name()); sel != nil {
					if fn := e.prog.MethodValue(sel); fn != nil {
						t.fn = fn
						t.iface = false
						t.args[0] = st.unbox(dt, recv.L[1])
						// method may be declared on the value type while dt is a pointer (or embedded): handled by wrappers
						t.contract = e.specs.lookup(fn)
						t.name = fn.Name()
						return t
					}
				}
			}
		}
		// interface-method contract: "<pkgpath>::Iface.Method"
		ifn := ""
		ipkg := ""
		if p, n := namedOrigin(c.Value.Type()); n != "" {
			ipkg, ifn = p, n
		}
		if ifn != "" {
			t.contract = e.specs.Contracts[ipkg+"::"+ifn+"."+c.Method.Name()]
			t.name = ifn + "." + c.Method.Name()
		}
		if t.contract == nil {
			// method declared in an embedded interface (e.g. io.Reader inside Protocol)
			if m := c.Method; m.Pkg() != nil {
				if recvT := m.Type().(*types.Signature).Recv(); recvT != nil {
					if p, n := namedOrigin(recvT.Type()); n != "" {
						t.contract = e.specs.Contracts[p+"::"+n+"."+m.Name()]
						if t.contract != nil {
							t.name = n + "." + m.Name()
						}
					}
				}
			}
		}
		return t
	}
	for _, a := range c.Args {
		t.args = append(t.args, st.get(a))
	}
	switch f := c.Value.(type) {
	case *ssa.Function:
		t.fn = f
		t.name = plainName(f.Name())
		t.contract = e.specs.lookup(f)
	case *ssa.Builtin:
		t.name = f.Name()
	default:
		fv := st.get(c.Value)
		t.name = calleeName(c)
		if fv.C != nil {
			t.closure = fv.C
			t.fn = fv.C.Fn
			t.contract = e.specs.lookup(fv.C.Fn)
		}
	}
	return t
}

func (e *Engine) doCall(st *State, in ssa.Instruction, c *ssa.CallCommon, k func(*State, Val)) {
	if b, ok := c.Value.(*ssa.Builtin); ok && !c.IsInvoke() {
		var args []Val
		for _, a := range c.Args {
			args = append(args, st.get(a))
		}
		bt := callTarget{name: b.Name(), args: args, sig: c.Signature()}
		if st.fr.contract != nil && len(st.fr.contract.Hooks) > 0 {
			e.runHooks(st, in, bt, false)
			if st.dead {
				return
			}
		}
		if b.Name() == "append" && len(args) == 2 && st.dry == nil {
			// two paths: the append fits into the capacity (in place) or reallocates
			var addLen Term
			if isString(args[1].T) {
				addLen = st.strLen(args[1].L[0])
			} else {
				addLen = args[1].L[2]
			}
			if n, ok := addLen.IntLit(); !ok || n.Sign() != 0 {
				fits := Le(Add(args[0].L[2], addLen), args[0].L[3])
				after := func(s *State, mode int) {
					r := e.doAppend(s, in, args[0], args[1], mode)
					if s.dead {
						return
					}
					if s.fr.contract != nil && len(s.fr.contract.Hooks) > 0 {
						e.runHooksAfter(s, in, bt, r)
						if s.dead {
							return
						}
					}
					k(s, r)
				}
				e.fork(st, fits, func(s *State) { after(s, 1) }, func(s *State) { after(s, 2) })
				return
			}
		}
		r := e.builtin(st, in, b, args, c)
		if st.dead {
			return
		}
		if st.fr.contract != nil && len(st.fr.contract.Hooks) > 0 {
			e.runHooksAfter(st, in, bt, r)
			if st.dead {
				return
			}
		}
		k(st, r)
		return
	}
	t := e.resolveCall(st, c)
	e.callResolved(st, in, t, k)
}

func resultType(sig *types.Signature) types.Type {
	switch sig.Results().Len() {
	case 0:
		return types.NewTuple()
	case 1:
		return sig.Results().At(0).Type()
	}
	return sig.Results()
}

func (e *Engine) callResolved(st *State, in ssa.Instruction, t callTarget, k func(*State, Val)) {
	pos := token.NoPos
	if in != nil {
		pos = in.Pos()
	}
	if t.nilRecv.S != "" && in != nil {
		st.oblige(in, "nil", Not(t.nilRecv), "method call "+t.name+" on a nil interface value")
		if st.dead {
			return
		}
	}
	// hooks before the call
	e.runHooks(st, in, t, false)
	if st.dead {
		return
	}
	evName := "call:" + t.name
	var evArgs []Term
	for _, a := range t.args {
		if len(a.L) > 0 {
			evArgs = append(evArgs, a.L[0])
		}
	}
	st.event(evName, pos, evArgs...)
	if q := qualifiedCallee(t); q != "" {
		st.event("call:"+q, pos, evArgs...)
	}
	if tc := st.ctx.contract; tc != nil && tc.Det && in != nil {
		ok := e.isDeterministic(t)
		if !ok {
			st.oblige(in, "det", TFalse, "call of "+t.name+" in a function declared deterministic: callee has no `det` contract")
		}
	}
	done := func(s *State, r Val) {
		e.runHooksAfter(s, in, t, r)
		if s.dead {
			return
		}
		k(s, r)
	}
	if t.fn != nil {
		if handled := e.native(st, in, t, done); handled {
			return
		}
	}
	switch {
	case t.contract != nil && !t.contract.Inline:
		e.applyContract(st, in, t, done)
	case t.closure != nil || (t.contract != nil && t.contract.Inline):
		e.inline(st, in, t, done)
	case t.fn != nil && t.fn.Blocks != nil && (e.autoInline(t.fn) || e.inlineHelper(st, t.fn)):
		e.inline(st, in, t, done)
	default:
		e.opaque(st, in, t, done)
	}
}

// inlineHelper: a function of the package under verification that has no
// contract is treated as part of its caller's body (so extracting a helper
// does not change what is proved); recursion and deep nesting stay opaque.
func (e *Engine) inlineHelper(st *State, fn *ssa.Function) bool {
	if fn.Pkg == nil || st.ctx.fn.Pkg == nil || fn.Pkg != st.ctx.fn.Pkg || st.fr.depth >= 3 {
		return false
	}
	for f := st.fr; f != nil; f = f.parent {
		if f.fn == fn {
			return false
		}
	}
	n := 0
	for _, b := range fn.Blocks {
		n += len(b.Instrs)
	}
	return n <= 400
}

func (e *Engine) isDeterministic(t callTarget) bool {
	if t.contract != nil {
		return t.contract.Det || t.contract.Inline
	}
	if t.closure != nil {
		return true // inlined: its own calls are checked
	}
	if t.fn != nil && t.fn.Blocks != nil && t.fn.Pkg != nil && e.specs.lookup(t.fn) == nil && strings.HasPrefix(t.fn.Pkg.Pkg.Path(), repoMod) {
		return true // uncontracted helper of the package: inlined, its own calls are checked
	}
	if t.fn != nil {
		if e.isPureName(fullName(t.fn)) || e.autoInline(t.fn) {
			return true
		}
		rt := recvTypeName(t.fn)
		if strings.HasPrefix(rt, "sync.") || strings.HasPrefix(rt, "sync/atomic.") {
			return true
		}
	}
	return false
}

// autoInline: small in-repo leaf helpers without contract are inlined
// (wrappers generated by go/ssa for promoted methods and bound methods always are).
func (e *Engine) autoInline(fn *ssa.Function) bool {
	if fn.Synthetic != "" && (strings.HasPrefix(fn.Synthetic, "wrapper") || strings.HasPrefix(fn.Synthetic, "bound") || strings.HasPrefix(fn.Synthetic, "thunk")) {
		return true
	}
	return false
}

func paramNames(t callTarget) []string {
	var names []string
	if t.fn != nil && len(t.fn.Params) == len(t.args) {
		for _, p := range t.fn.Params {
			names = append(names, p.Name())
		}
		return names
	}
	sig := t.sig
	if sig.Recv() != nil || t.iface {
		n := "recv"
		if sig.Recv() != nil && sig.Recv().Name() != "" && sig.Recv().Name() != "_" {
			n = sig.Recv().Name()
		}
		names = append(names, n)
	}
	for i := 0; i < sig.Params().Len(); i++ {
		n := sig.Params().At(i).Name()
		if n == "" || n == "_" {
			// unnamed: the absolute argument position (the receiver, if any, is arg0)
			n = fmt.Sprintf("arg%d", len(names))
		}
		names = append(names, n)
	}
	return names
}

func (e *Engine) contractEnv(st *State, t callTarget, old *State) *SpecEnv {
	env := &SpecEnv{st: st, old: old, vars: map[string]Val{}, what: "contract of " + t.name}
	names := paramNames(t)
	for i, n := range names {
		if i < len(t.args) {
			env.vars[n] = t.args[i]
			env.vars[fmt.Sprintf("arg%d", i)] = t.args[i]
		}
	}
	if len(t.args) > 0 {
		env.vars["recv"] = t.args[0]
	}
	// a closure's contract may mention the variables it captured
	if t.closure != nil {
		for i, fv := range t.closure.Fn.FreeVars {
			if i < len(t.closure.Bind) && t.closure.Bind[i].P != nil {
				func() {
					defer func() { recover() }()
					env.vars[fv.Name()] = st.loadQuiet(t.closure.Bind[i].P, nil)
				}()
			}
		}
	}
	c := t.contract
	if sp := e.pkgByPath(c.PkgPath); sp != nil {
		env.pkg = sp.Pkg
	}
	if t.fn != nil {
		env.fn = t.fn
		if rs := t.fn.Signature.Results(); rs != nil {
			for i := 0; i < rs.Len(); i++ {
				env.resNames = append(env.resNames, rs.At(i).Name())
			}
		}
	}
	return env
}

func (e *Engine) applyContract(st *State, in ssa.Instruction, t callTarget, k func(*State, Val)) {
	c := t.contract
	if c.Extern {
		st.ctx.note("assumed contract (dependency): %s", c.PkgPath+"::"+c.Key)
	} else if c.Trusted != "" {
		st.ctx.note("trusted contract (body not verified): %s — %s", c.Key, c.Trusted)
	} else if c.NoBody {
		st.ctx.note("assumed contract on /repo code (`nobody`: used at call sites, its body is not verified): %s", c.PkgPath+"::"+c.Key)
	}
	env := e.contractEnv(st, t, nil)
	for i, rq := range c.Requires {
		tm, err := st.evalClause(env, rq)
		name := ""
		if in != nil {
			name = st.ctx.oblName(in, "pre") + fmt.Sprintf("/%d", i+1)
		} else {
			name = fmt.Sprintf("%s#pre[%s]/%d", funcKey(st.fr.fn), t.name, i+1)
		}
		if err != nil {
			st.bindFail(name, err)
			continue
		}
		st.obligeNamed(name, "pre", st.posOf(in), tm, fmt.Sprintf("precondition of %s: %s", t.name, rq.Text))
		if st.dead {
			return
		}
	}
	old := st.clone()
	st.curInstr = in
	defer func() { st.curInstr = nil }()
	oldF, oldN := st.bumpFrontier()
	st.callFresh = nil
	// the result exists before the frame is applied, so that a modifies clause can name
	// locations of a freshly returned object (e.g. the ghost state of a new list element)
	rt := resultType(t.sig)
	res := st.freshVal(rt, st.ctx.freshName("r!"+t.name))
	st.boundRefs(res)
	if res.Tup != nil {
		env.results = res.Tup
	} else if tt, ok := rt.(*types.Tuple); !ok || tt.Len() > 0 {
		env.results = []Val{res}
	}
	// frame
	if c.ModifiesAll || (len(c.Modifies) == 0 && !c.Pure && len(c.Callsback) == 0) {
		// no frame given: everything reachable from the arguments may change
		e.havocReachable(st, t.args)
	}
	for _, m := range c.Modifies {
		if err := e.havocLocation(st, env, m); err != nil {
			st.bindFail(fmt.Sprintf("%s#modifies[%s]", funcKey(st.fr.fn), t.name), err)
		}
	}
	if len(c.Callsback) > 0 {
		e.callsbackFrame(st, in, t, c)
	}
	env2 := e.contractEnv(st, t, old)
	env2.callSite = true
	env2.freshLo = Add(oldF, I(int64(oldN)))
	if res.Tup != nil {
		env2.results = res.Tup
	} else if len(res.L) > 0 || rt != nil {
		if tt, ok := rt.(*types.Tuple); !ok || tt.Len() > 0 {
			env2.results = []Val{res}
		}
	}
	for _, en := range append(append([]Clause(nil), c.Ensures...), c.EnsuresAssumed...) {
		tm, err := st.evalClause(env2, en)
		if err != nil {
			st.bindFail(fmt.Sprintf("%s#post-bind[%s]", funcKey(st.fr.fn), t.name), err)
			continue
		}
		st.assume(tm)
	}
	for _, en := range c.EnsuresAssumed {
		st.ctx.note("ASSUMED postcondition of %s (used at call sites, not proved on its body): %s", c.Key, en.Text)
	}
	if len(c.InvokesOnSuccess) > 0 {
		e.invokeOnSuccess(st, in, t, c, res, k)
		return
	}
	k(st, res)
}

// havocLocation havocs one location named in a modifies clause:
//
//	x.f        field f of object x           elems(s)  all elements of slice s
//	*p         the cell p points to          all(T.f)  the whole component
func (e *Engine) havocLocation(st *State, env *SpecEnv, m Clause) (err error) {
	defer func() {
		if r := recover(); r != nil {
			switch x := r.(type) {
			case specError:
				err = fmt.Errorf("%s: %s", m.Text, x.msg)
			case unsupported:
				err = fmt.Errorf("%s: %s", m.Text, x.msg)
			default:
				panic(r)
			}
		}
	}()
	txt := strings.TrimSpace(m.Text)
	if strings.HasPrefix(txt, "elems(") {
		inner, perr := parseSpecExpr(txt[6 : len(txt)-1])
		if perr != nil {
			return perr
		}
		v := env.eval(inner)
		sl, ok := v.T.Underlying().(*types.Slice)
		if !ok {
			return fmt.Errorf("elems() of non-slice")
		}
		if st.curInstr != nil {
			st.frameCheck(st.curInstr, &PtrInfo{Kind: pkElem, Root: sl.Elem(), Ref: v.L[0], Idx: I(0)})
		}
		for _, l := range leavesOf(sl.Elem()) {
			key := elemKey(sl.Elem(), l.Path)
			h := st.heapTerm(key, l.Sort, true)
			st.setHeap(key, Store(h, v.L[0], st.ctx.freshConst("hv!elems", arrSort(l.Sort))))
			st.tainted[key] = true
		}
		return nil
	}
	if strings.HasPrefix(txt, "closedflag(") {
		// the closed/open state of one channel
		inner, perr := parseSpecExpr(txt[11 : len(txt)-1])
		if perr != nil {
			return perr
		}
		v := env.eval(inner)
		h := st.heapTerm(closedKey(v.T), SBool, false)
		st.setHeap(closedKey(v.T), Store(h, v.L[0], st.ctx.freshConst("hv!closed", SBool)))
		return nil
	}
	if strings.HasPrefix(txt, "objects(") {
		name := strings.TrimSpace(txt[8 : len(txt)-1])
		if env.pkg != nil {
			if tn, ok := env.pkg.Scope().Lookup(name).(*types.TypeName); ok {
				for _, l := range leavesOfSafe(tn.Type()) {
					st.havocKey(heapKey(tn.Type(), l.Path))
				}
				return nil
			}
		}
		return fmt.Errorf("objects(%s): no such type", name)
	}
	if strings.HasPrefix(txt, "fields(") {
		// the fields of the object itself (not what they reach)
		inner, perr := parseSpecExpr(txt[7 : len(txt)-1])
		if perr != nil {
			return perr
		}
		v := env.eval(inner)
		if _, isIf := v.T.Underlying().(*types.Interface); isIf {
			n, ok := v.L[0].IntLit()
			if !ok {
				e.havocState(st, v)
				return nil
			}
			dt := e.typeOfTag(n.Int64())
			if dt == nil {
				return nil
			}
			v = Val{T: dt, L: []Term{v.L[1]}}
			st.decorate(&v)
		}
		if v.P == nil {
			return fmt.Errorf("fields(): not a pointer")
		}
		_, _, t := pathRange(v.P.Root, v.P.Path)
		fresh := st.freshVal(t, st.ctx.freshName("hv!fields"))
		st.boundRefs(fresh)
		if st.curInstr != nil {
			st.frameCheck(st.curInstr, v.P)
		}
		st.storePtr(v.P, fresh)
		return nil
	}
	if strings.HasPrefix(txt, "state(") {
		// everything reachable from the (dynamic) value of an interface or pointer
		inner, perr := parseSpecExpr(txt[6 : len(txt)-1])
		if perr != nil {
			return perr
		}
		v := env.eval(inner)
		e.havocState(st, v)
		return nil
	}
	if strings.HasPrefix(txt, "g_") {
		k := strings.Index(txt, "(")
		inner, perr := parseSpecExpr(txt[k+1 : len(txt)-1])
		if perr != nil {
			return perr
		}
		v := env.eval(inner)
		idx := v.L[len(v.L)-1]
		if _, isSl := v.T.Underlying().(*types.Slice); isSl {
			idx = v.L[0]
		}
		key := "G#" + txt[2:k]
		h := st.heapTerm(key, SInt, false)
		st.setHeap(key, Store(h, idx, st.ctx.freshConst("hv!ghost", SInt)))
		return nil
	}
	if strings.HasPrefix(txt, "mapof(") {
		inner, perr := parseSpecExpr(txt[6 : len(txt)-1])
		if perr != nil {
			return perr
		}
		v := env.eval(inner)
		e.havocMap(st, v)
		return nil
	}
	// address of the location
	ex, perr := parseSpecExpr("&(" + txt + ")")
	if perr != nil {
		return perr
	}
	if strings.HasPrefix(txt, "*") {
		ex, perr = parseSpecExpr(txt[1:])
		if perr != nil {
			return perr
		}
	}
	pv := env.eval(ex)
	if pv.P == nil {
		return fmt.Errorf("not a location")
	}
	_, _, t := pathRange(pv.P.Root, pv.P.Path)
	fresh := st.freshVal(t, st.ctx.freshName("hv!mod"))
	st.boundRefs(fresh)
	if st.curInstr != nil {
		st.frameCheck(st.curInstr, pv.P)
	}
	st.storePtr(pv.P, fresh)
	return nil
}

// invokeOnSuccess: on the callee's success path the named function arguments
// have been called once (with unconstrained arguments) and returned nil.
func (e *Engine) invokeOnSuccess(st *State, in ssa.Instruction, t callTarget, c *Contract, res Val, k func(*State, Val)) {
	var errLeaf Term
	if res.Tup != nil {
		errLeaf = res.Tup[len(res.Tup)-1].L[0]
	} else {
		errLeaf = res.L[0]
	}
	names := paramNames(t)
	var cbs []Val
	for _, want := range c.InvokesOnSuccess {
		for i, n := range names {
			if n == want && i < len(t.args) {
				cbs = append(cbs, t.args[i])
			}
		}
	}
	e.fork(st, Eq(errLeaf, I(0)),
		func(s *State) {
			var run func(s *State, i int)
			run = func(s *State, i int) {
				if i >= len(cbs) {
					k(s, res)
					return
				}
				cb := cbs[i]
				if cb.C == nil {
					s.ctx.note("callback of %s is not statically known: its effects are not modelled", c.Key)
					run(s, i+1)
					return
				}
				ct := callTarget{fn: cb.C.Fn, closure: cb.C, sig: cb.C.Fn.Signature, name: cb.C.Fn.Name(), contract: e.specs.lookup(cb.C.Fn)}
				if len(cb.C.Bind) == 0 && len(cb.C.Fn.FreeVars) == 0 {
					ct.closure = nil
				}
				for j, p := range cb.C.Fn.Params {
					av := s.freshVal(p.Type(), s.ctx.freshName(fmt.Sprintf("cbarg!%d", j)))
					// arguments handed to the callback by the callee are non-nil (the callee's own
					// body is checked to pass what it obtained from non-nil sources)
					for li, l := range leavesOfSafe(p.Type()) {
						if li == 0 && (l.Role == "ityp" || l.Role == "ref") && li < len(av.L) {
							s.assume(Ne(av.L[li], I(0)))
						}
					}
					ct.args = append(ct.args, av)
				}
				e.callResolved(s, in, ct, func(s2 *State, r Val) {
					// the callee reported success, so the callback returned nil
					if r.Tup != nil && len(r.Tup) > 0 {
						s2.assume(Eq(r.Tup[len(r.Tup)-1].L[0], I(0)))
					} else if len(r.L) > 0 {
						s2.assume(Eq(r.L[0], I(0)))
					}
					if s2.dead {
						return
					}
					run(s2, i+1)
				})
			}
			run(s, 0)
		},
		func(s *State) { k(s, res) })
}

// callsbackFrame: the callee only acts through the listed methods of its first
// (interface) argument; its frame is the union of those methods' frames.
func (e *Engine) callsbackFrame(st *State, in ssa.Instruction, t callTarget, c *Contract) {
	if len(t.args) == 0 {
		return
	}
	a := t.args[0]
	var dt types.Type
	if _, isIf := a.T.Underlying().(*types.Interface); isIf && len(a.L) == 2 {
		if n, ok := a.L[0].IntLit(); ok && n.Sign() != 0 {
			dt = e.typeOfTag(n.Int64())
		}
	}
	if dt == nil {
		e.havocReachable(st, t.args)
		return
	}
	recv := st.unbox(dt, a.L[1])
	for _, mn := range c.Callsback {
		var fn *ssa.Function
		ms := e.prog.MethodSets.MethodSet(dt)
		for i := 0; i < ms.Len(); i++ {
			if ms.At(i).Obj().Name() == mn {
				fn = e.prog.MethodValue(ms.At(i))
			}
		}
		var mc *Contract
		if fn != nil {
			mc = e.specs.lookup(fn)
		}
		if mc == nil || (len(mc.Modifies) == 0 && !mc.Pure) {
			st.ctx.note("callback %s of %s has no frame: everything reachable from the receiver is havocked", mn, c.Key)
			e.havocReachable(st, []Val{recv})
			continue
		}
		ct := callTarget{fn: fn, contract: mc, sig: fn.Signature, name: mn}
		ct.args = append(ct.args, recv)
		for i := 1; i < len(fn.Params); i++ {
			ct.args = append(ct.args, st.freshVal(fn.Params[i].Type(), st.ctx.freshName("cb!"+mn)))
		}
		env := e.contractEnv(st, ct, nil)
		for _, m := range mc.Modifies {
			if err := e.havocLocation(st, env, m); err != nil {
				st.bindFail(fmt.Sprintf("%s#modifies[%s]", funcKey(st.fr.fn), mn), err)
			}
		}
	}
}

func (e *Engine) havocMap(st *State, m Val) {
	mt, ok := m.T.Underlying().(*types.Map)
	if !ok {
		return
	}
	dk, vk := mapKeys(m.T)
	dh := st.heapTerm(dk, SBool, true)
	st.setHeap(dk, Store(dh, m.L[0], st.ctx.freshConst("hv!dom", arrSort(SBool))))
	ck := "MC#" + typeKey(m.T.Underlying())
	ch := st.heapTerm(ck, SInt, false)
	st.setHeap(ck, Store(ch, m.L[0], st.ctx.freshConst("hv!mlen", SInt)))
	for _, l := range leavesOf(mt.Elem()) {
		key := vk(l.Path)
		h := st.heapTerm(key, l.Sort, true)
		st.setHeap(key, Store(h, m.L[0], st.ctx.freshConst("hv!mval", arrSort(l.Sort))))
	}
}

// havocState havocs what the dynamic value behind v may reach. For an interface
// of unknown dynamic type: every named type of the loaded /repo packages that
// implements it.
func (e *Engine) havocState(st *State, v Val) {
	it, isIf := v.T.Underlying().(*types.Interface)
	if !isIf {
		e.havocReachable(st, []Val{v})
		return
	}
	if n, ok := v.L[0].IntLit(); ok {
		if n.Sign() != 0 {
			if dt := e.typeOfTag(n.Int64()); dt != nil {
				e.havocReachable(st, []Val{{T: dt, L: []Term{v.L[1]}}})
			}
		}
		return
	}
	var vals []Val
	for path, sp := range e.pkgs {
		if !strings.HasPrefix(path, repoMod) {
			continue
		}
		for _, name := range sp.Pkg.Scope().Names() {
			tn, ok := sp.Pkg.Scope().Lookup(name).(*types.TypeName)
			if !ok || tn.IsAlias() {
				continue
			}
			if _, isI := tn.Type().Underlying().(*types.Interface); isI {
				continue
			}
			pt := types.NewPointer(tn.Type())
			if types.Implements(pt, it) || types.Implements(tn.Type(), it) {
				vals = append(vals, Val{T: pt, L: []Term{I(0)}})
			}
		}
	}
	e.havocReachable(st, vals)
}

// boundRefs: references coming out of a call denote objects that exist now.
func (st *State) boundRefs(v Val) {
	if v.Tup != nil {
		for _, e := range v.Tup {
			st.boundRefs(e)
		}
		return
	}
	if v.T == nil {
		return
	}
	ls := leavesOfSafe(v.T)
	if len(ls) != len(v.L) {
		return
	}
	for i, l := range ls {
		if l.Role == "ref" || l.Role == "arr" {
			st.assume(Le(v.L[i], st.frontierTerm()))
		}
	}
}

// reachableKeys collects heap components type-reachable from a value of type t.
func reachableKeys(t types.Type, seen map[string]bool, out map[string]bool, viaPtr bool) {
	switch u := t.Underlying().(type) {
	case *types.Pointer:
		el := u.Elem()
		k := typeKey(el)
		if seen[k] {
			return
		}
		seen[k] = true
		if _, isArr := el.Underlying().(*types.Array); isArr {
			arr := el.Underlying().(*types.Array)
			for _, l := range leavesOfSafe(arr.Elem()) {
				out[elemKey(arr.Elem(), l.Path)] = true
			}
			reachableKeys(arr.Elem(), seen, out, true)
			return
		}
		for _, l := range leavesOfSafe(el) {
			out[heapKey(el, l.Path)] = true
		}
		reachableKeys(el, seen, out, true)
	case *types.Slice:
		k := "[]" + typeKey(u.Elem())
		if seen[k] {
			return
		}
		seen[k] = true
		for _, l := range leavesOfSafe(u.Elem()) {
			out[elemKey(u.Elem(), l.Path)] = true
		}
		reachableKeys(u.Elem(), seen, out, true)
	case *types.Map:
		k := "map" + typeKey(t.Underlying())
		if seen[k] {
			return
		}
		seen[k] = true
		dk, vk := mapKeys(t)
		out[dk] = true
		out["MC#"+typeKey(t.Underlying())] = true
		for _, l := range leavesOfSafe(u.Elem()) {
			out[vk(l.Path)] = true
		}
		reachableKeys(u.Elem(), seen, out, true)
	case *types.Struct:
		if _, sp := specialLeaves(t); sp {
			return
		}
		for i := 0; i < u.NumFields(); i++ {
			reachableKeys(u.Field(i).Type(), seen, out, viaPtr)
		}
	case *types.Chan:
		out[closedKey(t)] = true
	}
}

func leavesOfSafe(t types.Type) (ls []Leaf) {
	defer func() {
		if r := recover(); r != nil {
			if _, ok := r.(unsupported); ok {
				ls = nil
				return
			}
			panic(r)
		}
	}()
	return leavesOf(t)
}

func (e *Engine) havocReachable(st *State, args []Val) {
	keys := map[string]bool{}
	seen := map[string]bool{}
	for _, a := range args {
		if a.T == nil {
			continue
		}
		if _, isIf := a.T.Underlying().(*types.Interface); isIf && len(a.L) == 2 {
			// interface whose dynamic type is statically known: what that value reaches may change
			if n, ok := a.L[0].IntLit(); ok && n.Sign() != 0 {
				if dt := e.typeOfTag(n.Int64()); dt != nil {
					reachableKeys(dt, seen, keys, false)
				}
			}
			continue
		}
		if a.P != nil && a.P.Kind == pkCell {
			// pointer to a local cell passed out: havoc the addressed part
			_, off, n, t := st.ptrLeaves(a.P)
			fresh := st.freshVal(t, st.ctx.freshName("hv!cell"))
			cell := st.cells[a.P.Cell]
			if cell != nil && len(fresh.L) == n {
				copy(cell.L[off:off+n], fresh.L)
			}
			reachableKeys(t, seen, keys, true)
			continue
		}
		if a.P != nil && a.P.Kind == pkHeap && len(a.P.Path) > 0 {
			// interior pointer: only the addressed sub-object (and what it reaches)
			_, off, n, t := st.ptrLeaves(a.P)
			ls := leavesOf(a.P.Root)
			for i := off; i < off+n; i++ {
				keys[heapKey(a.P.Root, ls[i].Path)] = true
			}
			reachableKeys(t, seen, keys, true)
			continue
		}
		if a.C != nil {
			for _, b := range a.C.Bind {
				if b.P != nil && b.P.Kind == pkHeap {
					reachableKeys(b.T, seen, keys, true)
				}
			}
		}
		reachableKeys(a.T, seen, keys, false)
	}
	var ks []string
	for k := range keys {
		ks = append(ks, k)
	}
	sort.Strings(ks)
	for _, k := range ks {
		st.havocKey(k)
		if st.dry != nil {
			st.dry.keys[k] = true
			st.dry.whole[k] = true
		}
	}
}

func (e *Engine) opaque(st *State, in ssa.Instruction, t callTarget, k func(*State, Val)) {
	name := t.name
	if t.fn != nil {
		name = fullName(t.fn)
	}
	pure := e.isPureName(name)
	st.bumpFrontier()
	if !pure {
		st.ctx.note("opaque call (no contract; arguments' reachable heap havocked, result unconstrained): %s", name)
		e.havocReachable(st, t.args)
	}
	rt := resultType(t.sig)
	res := st.freshVal(rt, st.ctx.freshName("ex!"+t.name))
	st.boundRefs(res)
	e.nonNilResults(st, name, res)
	k(st, res)
}

var pureFuncs = map[string]bool{}

func (e *Engine) isPureName(name string) bool {
	for _, p := range []string{"fmt::Errorf", "fmt::Sprintf", "fmt::Sprint", "errors::New", "errors::Is", "errors::As", "strings::", "path::", "strconv::", "time::Now", "time::Since", "net/url::"} {
		if strings.HasPrefix(name, p) {
			return true
		}
	}
	if strings.Contains(name, "go-log") || strings.Contains(name, "zap") {
		return true
	}
	return false
}

func (e *Engine) nonNilResults(st *State, name string, res Val) {
	switch {
	case strings.HasPrefix(name, "fmt::Errorf"), strings.HasPrefix(name, "errors::New"):
		st.assume(Ne(res.L[0], I(0)))
	}
}

// ---------------------------------------------------------------------------
// inlining

func (e *Engine) inline(st *State, in ssa.Instruction, t callTarget, k func(*State, Val)) {
	fn := t.fn
	if fn == nil || fn.Blocks == nil {
		e.opaque(st, in, t, k)
		return
	}
	if st.fr.depth >= 6 {
		unsup("inlining depth exceeded at %s", fn.Name())
	}
	fr := &Frame{fn: fn, regs: map[ssa.Value]Val{}, parent: st.fr, depth: st.fr.depth + 1,
		active: map[*ssa.BasicBlock]bool{}, visits: map[*ssa.BasicBlock]int{}, contract: e.specs.lookup(fn), site: in}
	args := t.args
	if len(args) != len(fn.Params) {
		unsup("inline %s: %d args for %d params", fn.Name(), len(args), len(fn.Params))
	}
	for i, p := range fn.Params {
		a := args[i]
		a.T = p.Type()
		fr.regs[p] = a
		fr.params = append(fr.params, a)
	}
	if t.closure != nil {
		for i, fv := range fn.FreeVars {
			if i < len(t.closure.Bind) {
				fr.regs[fv] = t.closure.Bind[i]
			}
		}
	} else if len(fn.FreeVars) > 0 {
		unsup("inline of closure without bindings")
	}
	st.fr = fr
	rt := resultType(fn.Signature)
	e.execFrom(st, fn.Blocks[0], 0, nil, func(s *State, results []Val) {
		s.fr = s.fr.parent
		var r Val
		switch len(results) {
		case 0:
			r = Val{T: rt}
		case 1:
			r = results[0]
		default:
			r = Val{T: rt, Tup: results}
		}
		k(s, r)
	})
}

// ---------------------------------------------------------------------------
// defer / go

func (e *Engine) doDefer(st *State, in *ssa.Defer) {
	d := deferred{call: &in.Call, instr: in}
	if !in.Call.IsInvoke() {
		if _, isB := in.Call.Value.(*ssa.Builtin); !isB {
			d.fnVal = st.get(in.Call.Value)
		}
	} else {
		d.fnVal = st.get(in.Call.Value)
	}
	for _, a := range in.Call.Args {
		d.args = append(d.args, st.get(a))
	}
	st.fr.defers = append(st.fr.defers, d)
}

func (e *Engine) runDefers(st *State, k func(*State)) {
	if len(st.fr.defers) == 0 {
		k(st)
		return
	}
	d := st.fr.defers[len(st.fr.defers)-1]
	st.fr.defers = st.fr.defers[:len(st.fr.defers)-1]
	after := func(s *State, _ Val) { e.runDefers(s, k) }
	c := d.call
	if b, ok := c.Value.(*ssa.Builtin); ok && !c.IsInvoke() {
		e.builtin(st, d.instr, b, d.args, c)
		if st.dead {
			return
		}
		after(st, Val{})
		return
	}
	// rebuild the target from the values captured at defer time
	var t callTarget
	t.sig = c.Signature()
	t.name = calleeName(c)
	if c.IsInvoke() {
		t.iface = true
		t.args = append([]Val{d.fnVal}, d.args...)
		if p, n := namedOrigin(c.Value.Type()); n != "" {
			t.contract = e.specs.Contracts[p+"::"+n+"."+c.Method.Name()]
		}
	} else {
		t.args = d.args
		switch f := c.Value.(type) {
		case *ssa.Function:
			t.fn = f
			t.contract = e.specs.lookup(f)
		default:
			if d.fnVal.C != nil {
				t.closure = d.fnVal.C
				t.fn = d.fnVal.C.Fn
				t.contract = e.specs.lookup(t.fn)
			}
		}
	}
	e.callResolved(st, d.instr, t, after)
}

func (e *Engine) doGo(st *State, in *ssa.Go) {
	name := calleeName(&in.Call)
	// the spawned function's precondition must hold where it is spawned (thread-modular
	// rule: the body is verified separately against that precondition)
	func() {
		defer func() {
			if r := recover(); r != nil {
				if _, ok := r.(unsupported); !ok {
					panic(r)
				}
			}
		}()
		t := e.resolveCall(st, &in.Call)
		if t.contract == nil || t.contract.Extern {
			return
		}
		env := e.contractEnv(st, t, nil)
		env.newThread = true
		for i, rq := range t.contract.Requires {
			oname := st.ctx.oblName(in, "pre") + fmt.Sprintf("/%d", i+1)
			tm, err := st.evalClause(env, rq)
			if err != nil {
				st.bindFail(oname, err)
				continue
			}
			st.obligeNamed(oname, "pre", st.posOf(in), tm, fmt.Sprintf("precondition of goroutine %s at its go statement: %s", t.name, rq.Text))
			if st.dead {
				return
			}
		}
	}()
	st.event("go:"+name, in.Pos())
	st.ctx.note("goroutine body %s is verified separately (if under contract); interleavings are not modelled", name)
}

// ---------------------------------------------------------------------------
// builtins

func (e *Engine) builtin(st *State, in ssa.Instruction, b *ssa.Builtin, args []Val, c *ssa.CallCommon) Val {
	switch b.Name() {
	case "len":
		v := args[0]
		switch v.T.Underlying().(type) {
		case *types.Slice:
			return scalar(types.Typ[types.Int], v.L[2])
		case *types.Basic:
			return scalar(types.Typ[types.Int], st.strLen(v.L[0]))
		case *types.Map:
			return scalar(types.Typ[types.Int], st.mapLen(v))
		case *types.Chan:
			t := st.ctx.freshConst("chanlen", SInt)
			st.assume(Ge(t, I(0)))
			return scalar(types.Typ[types.Int], t)
		case *types.Array:
			return scalar(types.Typ[types.Int], I(v.T.Underlying().(*types.Array).Len()))
		}
		unsup("len of %s", v.T)
	case "cap":
		v := args[0]
		if _, ok := v.T.Underlying().(*types.Slice); ok {
			return scalar(types.Typ[types.Int], v.L[3])
		}
		unsup("cap of %s", v.T)
	case "append":
		return e.doAppend(st, in, args[0], args[1], 0)
	case "copy":
		dst, src := args[0], args[1]
		var n Term
		if isString(src.T) {
			n = Min(dst.L[2], st.strLen(src.L[0]))
		} else {
			n = Min(dst.L[2], src.L[2])
		}
		sl := dst.T.Underlying().(*types.Slice)
		for _, l := range leavesOf(sl.Elem()) {
			key := elemKey(sl.Elem(), l.Path)
			h := st.heapTerm(key, l.Sort, true)
			st.setHeap(key, Store(h, dst.L[0], st.ctx.freshConst("hv!copy", arrSort(l.Sort))))
		}
		return scalar(types.Typ[types.Int], st.named(n))
	case "delete":
		st.frameCheckMap(in, args[0])
		st.mapDelete(args[0], args[1])
		return Val{}
	case "close":
		ch := args[0].L[0]
		st.oblige(in, "close", And(Ne(ch, I(0)), Not(st.chanClosed(args[0]))), "close of nil or closed channel "+subjectOf(c.Args[0]))
		h := st.heapTerm(closedKey(args[0].T), SBool, false)
		st.setHeap(closedKey(args[0].T), Store(h, ch, TTrue))
		st.event("close:"+subjectOf(c.Args[0]), in.Pos(), ch)
		return Val{}
	case "panic":
		if ct := st.fr.contract; ct == nil || !ct.MayPanic {
			st.oblige(in, "panic", TFalse, "explicit panic is unreachable")
		}
		st.dead = true
		return Val{}
	case "print", "println":
		return Val{}
	case "recover":
		return zeroVal(types.NewInterfaceType(nil, nil))
	case "min", "max":
		a, b2 := args[0].term(), args[1].term()
		if b.Name() == "min" {
			return scalar(args[0].T, Min(a, b2))
		}
		return scalar(args[0].T, Ite(Ge(a, b2), a, b2))
	case "ssa:wrapnilchk":
		return args[0]
	case "ssa:deferstack":
		return Val{T: b.Type().(*types.Signature).Results().At(0).Type(), L: []Term{I(0)}}
	}
	unsup("builtin %s", b.Name())
	return Val{}
}

func (e *Engine) doAppend(st *State, in ssa.Instruction, s, t Val, mode int) Val {
	sl := s.T.Underlying().(*types.Slice)
	var addLen Term
	single := false
	var tv Val
	if isString(t.T) {
		addLen = st.strLen(t.L[0])
	} else {
		addLen = t.L[2]
		if n, ok := addLen.IntLit(); ok && n.Int64() == 1 {
			single = true
			// load the single appended element
			p := &PtrInfo{Kind: pkElem, Root: sl.Elem(), Ref: t.L[0], Idx: t.L[1]}
			tv = st.loadPtr(p)
		}
	}
	var cS, cT Term
	contentTracked := isByteLike(sl.Elem())
	if contentTracked {
		cS = st.bytesOf(s)
		if isString(t.T) {
			cT = st.bytesOf(t)
		} else {
			cT = st.bytesOf(t)
		}
	}
	newLen := st.named(Add(s.L[2], addLen))
	st.assume(Le(newLen, I(maxElemsOf(s.T)/4)))
	inPlace := Le(newLen, s.L[3])
	switch mode {
	case 1:
		st.assume(inPlace)
		inPlace = TTrue
	case 2:
		st.assume(Not(inPlace))
		inPlace = TFalse
	}
	fresh := st.newRef()
	arr := Ite(inPlace, s.L[0], fresh)
	arr = st.named(arr)
	off := Ite(inPlace, s.L[1], I(0))
	capN := st.ctx.freshConst("appcap", SInt)
	st.assume(And(Ge(capN, newLen), Le(capN, I(maxElemsOf(s.T)/4))))
	cp := Ite(inPlace, s.L[3], capN)
	isEmpty := false
	if n, ok := addLen.IntLit(); ok && n.Sign() == 0 {
		isEmpty = true
	}
	if isEmpty {
		// append(s) or append(s, empty...) returns s itself
		return Val{T: s.T, L: s.L}
	}
	oldElemHeap := map[string]Term{}
	for i, l := range leavesOf(sl.Elem()) {
		key := elemKey(sl.Elem(), l.Path)
		h := st.heapTerm(key, l.Sort, true)
		oldElemHeap[key] = h
		// contents: the old backing array (shifted if reallocated) plus the new elements
		var contents Term
		if single {
			// keep offsets when in place; when reallocated the new array starts at 0:
			// model it as a copy of the old array function re-based by off (uninterpreted shift kept exact
			// for the appended element and, through the frame axiom below, for the prefix)
			base := Select(h, s.L[0])
			if mode == 2 {
				// reallocated: a fresh array whose first len(s) elements are the old ones and whose
				// next element is the appended one (stated below, for every leaf)
				c := st.ctx.freshConst("newarr", arrSort(l.Sort))
				q := Term{sym(st.ctx.freshName("q!cp")), SInt}
				st.assume(Term{fmt.Sprintf("(forall ((%s Int)) %s)", q.S, Implies(And(Le(I(0), q), Lt(q, s.L[2])), Eq(Select(c, q), Select(base, Add(s.L[1], q)))).S), SBool})
				contents = Store(c, s.L[2], tv.L[i])
			} else {
				contents = Ite(inPlace, Store(base, Add(s.L[1], s.L[2]), tv.L[i]),
					Store(st.shifted(base, s.L[1], l.Sort), s.L[2], tv.L[i]))
			}
		} else {
			// several elements: a new content function c that agrees with the old slice on its first len(s)
			// positions, with the appended slice on the next addLen positions and, when the append happens in
			// place, with the old backing array everywhere else; appending nothing changes nothing
			c := st.ctx.freshConst("hv!append", arrSort(l.Sort))
			base := Select(h, s.L[0])
			q := Term{sym(st.ctx.freshName("q!apn")), SInt}
			st.assume(Term{fmt.Sprintf("(forall ((%s Int)) %s)", q.S, Implies(And(Le(I(0), q), Lt(q, s.L[2])), Eq(Select(c, Add(off, q)), Select(base, Add(s.L[1], q)))).S), SBool})
			if !isString(t.T) {
				tbase := Select(h, t.L[0])
				q2 := Term{sym(st.ctx.freshName("q!apt")), SInt}
				st.assume(Term{fmt.Sprintf("(forall ((%s Int)) %s)", q2.S, Implies(And(Le(I(0), q2), Lt(q2, addLen)), Eq(Select(c, Add(off, Add(s.L[2], q2))), Select(tbase, Add(t.L[1], q2)))).S), SBool})
			}
			q3 := Term{sym(st.ctx.freshName("q!apf")), SInt}
			st.assume(Implies(inPlace, Term{fmt.Sprintf("(forall ((%s Int)) %s)", q3.S, Implies(Or(Lt(q3, Add(s.L[1], s.L[2])), Ge(q3, Add(s.L[1], newLen))), Eq(Select(c, q3), Select(base, q3))).S), SBool}))
			contents = Ite(Eq(addLen, I(0)), Select(h, s.L[0]), c)
		}
		st.setHeap(key, Store(h, arr, contents))
	}
	res := Val{T: s.T, L: []Term{arr, off, newLen, cp}}
	if els := leavesOf(sl.Elem()); single {
		// stated directly, so that quantified invariants over the slice need not be pushed through
		// the reallocation: the first len(s) elements are unchanged and the new one is at index len(s)
		for li, el := range els {
			key := elemKey(sl.Elem(), el.Path)
			hNew := st.heapTerm(key, el.Sort, true)
			hOld, ok := oldElemHeap[key]
			if ok {
				q := Term{sym(st.ctx.freshName("q!app")), SInt}
				body := Eq(Select(Select(hNew, arr), Add(off, q)), Select(Select(hOld, s.L[0]), Add(s.L[1], q)))
				st.assume(Term{fmt.Sprintf("(forall ((%s Int)) %s)", q.S, Implies(And(Le(I(0), q), Lt(q, s.L[2])), body).S), SBool})
				st.assume(Eq(Select(Select(hNew, arr), Add(off, s.L[2])), tv.L[li]))
			}
		}
	}
	if contentTracked {
		st.assume(Eq(st.bytesOf(res), st.bcat(cS, cT)))
		// append never changes the first len(s) elements of s
		st.assume(Eq(st.bytesOf(s), cS))
	}
	return res
}

// shifted returns an array term a' with a'[i] = a[i+off] (uninterpreted with pointwise facts on demand).
func (st *State) shifted(a Term, off Term, elemSort string) Term {
	if n, ok := off.IntLit(); ok && n.Sign() == 0 {
		return a
	}
	f := st.ctx.declareFun("sf!shift"+elemSort, []string{arrSort(elemSort), SInt}, arrSort(elemSort))
	t := Term{fmt.Sprintf("(%s %s %s)", f, a.S, off.S), arrSort(elemSort)}
	key := "shiftax!" + elemSort
	if !st.ctx.declSet[key] {
		st.ctx.declSet[key] = true
		txt := fmt.Sprintf("(assert (forall ((a %s) (o Int) (i Int)) (! (= (select (%s a o) i) (select a (+ i o))) :pattern ((select (%s a o) i)))))", arrSort(elemSort), f, f)
		st.ctx.axioms = append(st.ctx.axioms, axiomText{name: "shift" + elemSort, text: txt, syms: []string{f}, src: "a reallocated backing array holds the old elements re-based at 0"})
	}
	return t
}

// ---------------------------------------------------------------------------
// channels and select

func (st *State) isLockChan(v ssa.Value) bool {
	// a channel loaded from a struct field declared as lockchan
	if u, ok := v.(*ssa.UnOp); ok && u.Op == token.MUL {
		if fa, ok := u.X.(*ssa.FieldAddr); ok {
			pt := fa.X.Type().Underlying().(*types.Pointer).Elem()
			if p, n := namedOrigin(pt); n != "" {
				fld := pt.Underlying().(*types.Struct).Field(fa.Field).Name()
				return st.ctx.eng.specs.LockChans[p+"."+n+"."+fld]
			}
		}
	}
	return false
}

func (e *Engine) doSend(st *State, in *ssa.Send, ch, x Val) {
	subj := subjectOf(in.Chan)
	st.oblige(in, "send", Not(st.chanClosed(ch)), "send on closed channel "+subj)
	if st.isLockChan(in.Chan) {
		h := st.heapTerm("CH#held", SBool, false)
		st.oblige(in, "lock", Not(Select(h, ch.L[0])), "acquire of lock channel "+subj+" already held by this thread (self-deadlock)")
		st.setHeap("CH#held", Store(h, ch.L[0], TTrue))
		st.touchLock("chan:"+subj, nil, ch.L[0])
		st.event("acquire:"+subj, in.Pos(), ch.L[0])
		return
	}
	st.blockingOp(in, "send:"+subj)
	st.sendHooks(in, subj, x)
	var a []Term
	a = append(a, ch.L[0])
	a = append(a, x.L...)
	st.event("send:"+subj, in.Pos(), a...)
}

func (e *Engine) doRecv(st *State, in *ssa.UnOp, ch Val) {
	subj := subjectOf(in.X)
	if st.isLockChan(in.X) {
		h := st.heapTerm("CH#held", SBool, false)
		st.oblige(in, "unlock", Select(h, ch.L[0]), "release of lock channel "+subj+" not held")
		st.setHeap("CH#held", Store(h, ch.L[0], TFalse))
		st.touchLock("chan:"+subj, nil, ch.L[0])
		st.event("release:"+subj, in.Pos(), ch.L[0])
		et := in.X.Type().Underlying().(*types.Chan).Elem()
		v := zeroVal(et)
		if in.CommaOk {
			st.fr.regs[in] = Val{T: in.Type(), Tup: []Val{v, boolVal(TTrue)}}
		} else {
			st.set(in, v)
		}
		return
	}
	st.blockingOp(in, "recv:"+subj)
	st.event("recv:"+subj, in.Pos(), ch.L[0])
	et := in.X.Type().Underlying().(*types.Chan).Elem()
	v := st.freshVal(et, st.ctx.freshName("recv!"+subj))
	if in.CommaOk {
		ok := st.ctx.freshConst("recv!ok", SBool)
		st.fr.regs[in] = Val{T: in.Type(), Tup: []Val{v, boolVal(ok)}}
		st.recvHooks(in, subj, v, ok)
	} else {
		st.set(in, v)
		st.recvHooks(in, subj, v, TTrue)
	}
}

// sendHooks: `at send <chan>: assert P` - a condition on every value this function sends on the channel
// (v names the value sent), evaluated in the state in which it is sent.
func (st *State) sendHooks(in ssa.Instruction, subj string, v Val) {
	c := st.fr.contract
	if c == nil || in.Parent() != st.fr.fn {
		return
	}
	for i, h := range c.Hooks["send:"+subj] {
		if h.Kind != "assert" {
			continue
		}
		if st.ctx.hooksFired == nil {
			st.ctx.hooksFired = map[string]bool{}
		}
		st.ctx.hooksFired["send:"+subj] = true
		env := st.specEnv("hook")
		env.scope = in.Block()
		env.vars["v"] = v
		name := st.ctx.oblName(in, "send") + fmt.Sprintf("/assert%d", i+1)
		tm, err := st.evalClause(env, h.Cl)
		if err != nil {
			st.bindFail(name, err)
			continue
		}
		st.obligeNamed(name, "assert", st.posOf(in), tm, "when sending on "+subj+": "+h.Cl.Text)
	}
}

// recvHooks: `at recv <chan>: assume P` — an ASSUMED fact about the values sent on a
// channel by other threads (v names the received value, ok the receive's second result).
func (st *State) recvHooks(in ssa.Instruction, subj string, v Val, ok Term) {
	c := st.fr.contract
	if c == nil || in.Parent() != st.fr.fn {
		return
	}
	for i, h := range c.Hooks["recv:"+subj] {
		if h.Kind == "assert" {
			// a condition on the state in which this thread waits on the channel (e.g. no lock held)
			env := st.specEnv("hook")
			env.scope = in.Block()
			name := st.ctx.oblName(in, "recv") + fmt.Sprintf("/assert%d", i+1)
			tm, err := st.evalClause(env, h.Cl)
			if err != nil {
				st.bindFail(name, err)
				continue
			}
			st.obligeNamed(name, "assert", st.posOf(in), tm, "when receiving from "+subj+": "+h.Cl.Text)
			continue
		}
		if h.Kind != "assume" {
			continue
		}
		env := st.specEnv("hook")
		env.scope = in.Block()
		env.vars["v"] = v
		env.vars["ok"] = boolVal(ok)
		tm, err := st.evalClause(env, h.Cl)
		if err != nil {
			st.bindFail(st.ctx.oblName(in, "select")+"/recv-assume", err)
			continue
		}
		st.ctx.note("ASSUMED about values received from %s in %s: %s", subj, funcKey(st.fr.fn), h.Cl.Text)
		st.assume(Implies(ok, tm))
	}
}

// blockingOp records a blocking channel operation outside a select.
func (st *State) blockingOp(in ssa.Instruction, what string) {
	st.blocking = append(st.blocking, what)
	c := st.ctx.contract
	if c == nil || len(c.Shutdown) == 0 || strings.HasPrefix(what, "lock:") || in == nil || in.Parent() != st.ctx.fn {
		return
	}
	for _, m := range c.MayBlock {
		if m == what || (strings.HasSuffix(m, ":*") && strings.HasPrefix(what, m[:len(m)-1])) {
			st.ctx.note("%s may block at %s without a shutdown alternative (accepted by its contract: mayblock)", c.Key, what)
			return
		}
	}
	st.oblige(in, "shutdown", TFalse, "blocking "+what+" outside a select has no shutdown alternative")
}

func (e *Engine) doSelect(st *State, in *ssa.Select, k func(*State)) {
	n := len(in.States)
	// results: (index int, recvOk bool, r_0 T_0, ..., r_n-1 T_n-1) for recv states
	var names []string
	for _, s := range in.States {
		d := "recv:"
		if s.Dir == types.SendOnly {
			d = "send:"
		}
		names = append(names, d+subjectOf(s.Chan))
	}
	st.event("select{"+strings.Join(names, ",")+"}", in.Pos())
	if in.Blocking {
		st.selects = append(st.selects, names)
		if c := st.ctx.contract; c != nil && len(c.Shutdown) > 0 && in.Parent() == st.ctx.fn {
			ok := false
			for _, nm := range names {
				for _, sd := range c.Shutdown {
					if nm == "recv:"+sd {
						ok = true
					}
				}
			}
			st.oblige(in, "shutdown", B(ok), fmt.Sprintf("blocking select {%s} has a shutdown case (one of %v)", strings.Join(names, ", "), c.Shutdown))
		}
	}
	branch := func(s *State, idx int) {
		okT := s.ctx.freshConst("sel!ok", SBool)
		tup := []Val{scalar(types.Typ[types.Int], I(int64(idx))), boolVal(okT)}
		for j, ss := range in.States {
			if ss.Dir == types.RecvOnly {
				et := ss.Chan.Type().Underlying().(*types.Chan).Elem()
				if j == idx {
					rv := s.freshVal(et, s.ctx.freshName("sel!recv"))
					tup = append(tup, rv)
					// a receive reports ok == false only on a closed channel
					chv := s.get(ss.Chan)
					s.assume(Implies(Not(okT), s.chanClosed(chv)))
					s.recvHooks(in, subjectOf(ss.Chan), rv, okT)
				} else {
					tup = append(tup, zeroVal(et))
				}
			}
		}
		if idx >= 0 && idx < n {
			ss := in.States[idx]
			ch := s.get(ss.Chan)
			subj := subjectOf(ss.Chan)
			if s.isLockChan(ss.Chan) {
				// a one-slot channel used as a lock: a send that goes through acquires it
				// (so it was free), a receive releases it
				h := s.heapTerm("CH#held", SBool, false)
				if ss.Dir == types.SendOnly {
					s.assume(Not(Select(h, ch.L[0])))
					s.setHeap("CH#held", Store(h, ch.L[0], TTrue))
					s.event("acquire:"+subj, in.Pos(), ch.L[0])
				} else {
					s.obligeNamed(s.ctx.oblName(in, "select")+fmt.Sprintf("/release%d", idx), "unlock", s.posOf(in), Select(h, ch.L[0]), "release of lock channel "+subj+" not held")
					s.setHeap("CH#held", Store(h, ch.L[0], TFalse))
					s.event("release:"+subj, in.Pos(), ch.L[0])
				}
				s.touchLock("chan:"+subj, nil, ch.L[0])
			} else if ss.Dir == types.SendOnly {
				s.obligeNamed(s.ctx.oblName(in, "select")+fmt.Sprintf("/send%d", idx), "send", s.posOf(in), Not(s.chanClosed(ch)), "send on closed channel "+subj)
				x := s.get(ss.Send)
				s.sendHooks(in, subj, x)
				a := append([]Term{ch.L[0]}, x.L...)
				s.event("send:"+subj, in.Pos(), a...)
			} else {
				// the received value is recorded after the channel reference
				ra := []Term{ch.L[0]}
				k := 2
				for j2, ss2 := range in.States {
					if ss2.Dir == types.RecvOnly {
						if j2 == idx && k < len(tup) {
							ra = append(ra, tup[k].L...)
						}
						k++
					}
				}
				s.event("recv:"+subj, in.Pos(), ra...)
			}
		}
		s.fr.regs[in] = Val{T: in.Type(), Tup: tup}
		k(s)
	}
	total := n
	if !in.Blocking {
		total = n + 1
	}
	for i := 0; i < total; i++ {
		idx := i
		if i == n {
			idx = -1
		}
		var s *State
		if i == total-1 {
			s = st
		} else {
			s = st.clone()
			st.ctx.pathSeq++
			s.pathID = st.ctx.pathSeq
			st.ctx.paths++
		}
		branch(s, idx)
	}
}

// ---------------------------------------------------------------------------
// frame checks (writes must stay inside the function's modifies clause)

type frameLoc struct {
	kind string // heap | elem | map | ghost
	root string // type key of the root (heap), element type (elem), map type (map), ghost name
	path []int
	ref  Term
}

// frameLocs evaluates the modifies clause of the function under verification in its entry state.
func (st *State) frameLocs() []frameLoc {
	c := st.ctx.contract
	if st.ctx.frameDone {
		return st.ctx.frame
	}
	st.ctx.frameDone = true
	ent := st.entry
	if ent == nil {
		ent = st
	}
	// evaluate in the entry state with the top frame's parameters
	top := st.fr
	for top.parent != nil {
		top = top.parent
	}
	es := ent.clone()
	es.entry = nil
	es.fr = top.clone()
	env := es.specEnv("modifies")
	for _, m := range c.Modifies {
		func() {
			defer func() {
				if r := recover(); r != nil {
					switch x := r.(type) {
					case specError:
						st.ctx.frameErr = append(st.ctx.frameErr, m.Text+": "+x.msg)
					case unsupported:
						st.ctx.frameErr = append(st.ctx.frameErr, m.Text+": "+x.msg)
					default:
						panic(r)
					}
				}
			}()
			txt := strings.TrimSpace(m.Text)
			switch {
			case strings.HasPrefix(txt, "elems("):
				ex, err := parseSpecExpr(txt[6 : len(txt)-1])
				if err != nil {
					specFail("%v", err)
				}
				v := env.eval(ex)
				sl := v.T.Underlying().(*types.Slice)
				st.ctx.frame = append(st.ctx.frame, frameLoc{kind: "elem", root: typeKey(sl.Elem()), ref: v.L[0]})
			case strings.HasPrefix(txt, "mapof("):
				ex, err := parseSpecExpr(txt[6 : len(txt)-1])
				if err != nil {
					specFail("%v", err)
				}
				v := env.eval(ex)
				st.ctx.frame = append(st.ctx.frame, frameLoc{kind: "map", root: typeKey(v.T.Underlying()), ref: v.L[0]})
			case strings.HasPrefix(txt, "closedflag("):
				// channel state is ghost: nothing to check on heap writes
			case strings.HasPrefix(txt, "objects("):
				// any object of the named struct type of this package
				st.ctx.frame = append(st.ctx.frame, frameLoc{kind: "type", root: strings.TrimSpace(txt[8 : len(txt)-1])})
			case strings.HasPrefix(txt, "g_"):
				k := strings.Index(txt, "(")
				ex, err := parseSpecExpr(txt[k+1 : len(txt)-1])
				if err != nil {
					specFail("%v", err)
				}
				v := env.eval(ex)
				st.ctx.frame = append(st.ctx.frame, frameLoc{kind: "ghost", root: txt[2:k], ref: v.L[len(v.L)-1]})
			default:
				if isIdent(txt) {
					// a captured variable the closure never assigns is captured by value: there is no
					// location to write, the clause is vacuous for this body
					byValue := false
					name := txt
					if rn := st.ctx.eng.renamedIdent(top.fn, name); rn != "" {
						name = rn
					}
					for _, fv := range top.fn.FreeVars {
						if fv.Name() == name {
							if v, ok := top.regs[fv]; !ok || v.P == nil {
								byValue = true
							}
						}
					}
					if byValue {
						return
					}
				}
				src := "&(" + txt + ")"
				if strings.HasPrefix(txt, "*") {
					src = txt[1:]
				}
				ex, err := parseSpecExpr(src)
				if err != nil {
					specFail("%v", err)
				}
				v := env.eval(ex)
				if v.P == nil {
					specFail("not a location")
				}
				st.ctx.frame = append(st.ctx.frame, frameLoc{kind: "heap", root: typeKey(v.P.Root), path: v.P.Path, ref: v.P.Ref})
			}
		}()
	}
	return st.ctx.frame
}

func isIdent(s string) bool {
	if s == "" {
		return false
	}
	for i, r := range s {
		if !(r == '_' || (r >= 'a' && r <= 'z') || (r >= 'A' && r <= 'Z') || (i > 0 && r >= '0' && r <= '9')) {
			return false
		}
	}
	return true
}

func (st *State) strictFrame() bool {
	c := st.ctx.contract
	if c == nil || st.dry != nil {
		return false
	}
	for _, m := range c.Modifies {
		// state(x) / fields(x) frames are coarse (everything x reaches): call sites havoc all of
		// it, so there is nothing finer to check on the body
		if strings.HasPrefix(strings.TrimSpace(m.Text), "state(") || strings.HasPrefix(strings.TrimSpace(m.Text), "fields(") {
			return false
		}
	}
	return c.Pure || len(c.Modifies) > 0
}

func isFreshRef(t Term) bool {
	return strings.HasPrefix(t.S, "(+ A0 ") || strings.HasPrefix(t.S, "(+ B!")
}

func pathHasPrefix(p, prefix []int) bool {
	if len(prefix) > len(p) {
		return false
	}
	for i := range prefix {
		if p[i] != prefix[i] {
			return false
		}
	}
	return true
}

// frameCheck: a heap write in a function with a declared frame must hit a
// declared location or an object allocated by this invocation.
func (st *State) frameCheck(in ssa.Instruction, p *PtrInfo) {
	if !st.strictFrame() || p.Kind == pkCell || isFreshRef(p.Ref) {
		return
	}
	a0 := Term{"A0", SInt}
	goal := Gt(p.Ref, a0)
	for _, l := range st.frameLocs() {
		switch {
		case p.Kind == pkHeap && l.kind == "heap" && l.root == typeKey(p.Root) && pathHasPrefix(p.Path, l.path):
			goal = Or(goal, Eq(p.Ref, l.ref))
		case p.Kind == pkElem && l.kind == "elem" && l.root == typeKey(p.Root):
			goal = Or(goal, Eq(p.Ref, l.ref))
		case p.Kind == pkHeap && l.kind == "type":
			if _, tn := namedOrigin(p.Root); tn == l.root {
				goal = TTrue
			}
		}
	}
	st.frameBind(in)
	st.oblige(in, "frame", goal, "write stays inside the function's declared frame (modifies clause) or hits a fresh object")
}

func (st *State) frameBind(in ssa.Instruction) {
	for _, e := range st.ctx.frameErr {
		st.obligeNamed(funcKey(st.ctx.fn)+"#bind[modifies]", "bind", "", TFalse, "modifies clause does not bind: "+e)
	}
	st.ctx.frameErr = nil
}

func (st *State) frameCheckMap(in ssa.Instruction, m Val) {
	if !st.strictFrame() || isFreshRef(m.L[0]) {
		return
	}
	a0 := Term{"A0", SInt}
	goal := Gt(m.L[0], a0)
	for _, l := range st.frameLocs() {
		if l.kind == "map" && l.root == typeKey(m.T.Underlying()) {
			goal = Or(goal, Eq(m.L[0], l.ref))
		}
	}
	st.frameBind(in)
	st.oblige(in, "frame", goal, "map write stays inside the declared frame or hits a fresh map")
}
func (e *Engine) hookAllocBound(st *State, in ssa.Instruction, ln, cp Term) {
	c := st.fr.contract
	if c == nil {
		return
	}
	name := st.ctx.oblName(in, "allocbound")
	// key: "make#k" by ordinal of the make within the function
	ord := name[strings.LastIndex(name, "#")+1:]
	for _, h := range c.Hooks["make#"+ord] {
		if h.Kind != "allocbound" {
			continue
		}
		env := st.specEnv("allocbound")
		env.vars["len"] = intVal(ln)
		env.vars["cap"] = intVal(cp)
		env.vars["size"] = intVal(cp)
		t, err := st.evalClause(env, h.Cl)
		if err != nil {
			st.bindFail(name, err)
			continue
		}
		st.obligeNamed(name, "allocbound", st.posOf(in), t, "allocation bound: "+h.Cl.Text)
	}
}

// ---------------------------------------------------------------------------
// hooks at calls

// qualifiedCallee: "pkg.Func" for a statically known package-level function or method.
func qualifiedCallee(t callTarget) string {
	if t.fn == nil || t.fn.Pkg == nil {
		return ""
	}
	return t.fn.Pkg.Pkg.Name() + "." + plainName(t.fn.Name())
}

func qualifiedCalleeOf(c *ssa.CallCommon) string {
	if c.IsInvoke() {
		return ""
	}
	if f, ok := c.Value.(*ssa.Function); ok && f.Pkg != nil {
		return f.Pkg.Pkg.Name() + "." + f.Name()
	}
	return ""
}

func hookKeys(st *State, in ssa.Instruction, t callTarget) []string {
	if in == nil {
		return nil
	}
	name := st.ctx.oblName(in, "call")
	ord := name[strings.LastIndex(name, "#")+1:]
	callee := t.name
	keys := []string{}
	if c, ok := in.(ssa.CallInstruction); ok {
		callee = calleeName(c.Common())
		// package-qualified form, with its own ordinal (pkg.Func#k counts only calls of pkg.Func)
		if q := qualifiedCalleeOf(c.Common()); q != "" {
			n := 0
			found := 0
			for _, b := range in.Parent().Blocks {
				for _, x := range b.Instrs {
					if ci, ok := x.(ssa.CallInstruction); ok && qualifiedCalleeOf(ci.Common()) == q {
						n++
						if x == in {
							found = n
						}
					}
				}
			}
			keys = append(keys, fmt.Sprintf("%s#%d", q, found), q)
		}
	}
	if c, ok := in.(ssa.CallInstruction); ok && !c.Common().IsInvoke() {
		switch c.Common().Value.(type) {
		case *ssa.Function, *ssa.Builtin, *ssa.MakeClosure:
		default:
			// a call through a function value: also addressable by the value's named type (`at call Option:`),
			// which does not depend on how the value is reached (a range variable, an element, a field)
			if nt, ok := c.Common().Value.Type().(*types.Named); ok {
				keys = append(keys, nt.Obj().Name())
			}
		}
	}
	callee = st.ctx.eng.stableSubject(in.Parent(), callee)
	return append(keys, callee+"#"+ord, callee)
}

func (e *Engine) runHooks(st *State, in ssa.Instruction, t callTarget, after bool) {
	c := st.fr.contract
	// A helper without a contract that was inlined into a function under contract: the hooks of that
	// contract which name a callee without an ordinal also apply to the calls the helper makes (moving
	// a call into a helper does not take it out of the contract's reach). They are evaluated in the
	// frame of the function under contract, at the point where the helper was called.
	var owner *Frame
	var site ssa.Instruction
	if in != nil && c == nil && st.fr.depth > 0 && in.Parent() == st.fr.fn {
		fr := st.fr
		for fr.parent != nil && fr.contract == nil && fr.site != nil {
			site = fr.site
			fr = fr.parent
		}
		if fr.contract != nil && site != nil && site.Parent() == fr.fn {
			owner, c = fr, fr.contract
		}
	}
	if c == nil || len(c.Hooks) == 0 || in == nil || in.Parent() != st.fr.fn {
		return
	}
	if owner != nil {
		saved := st.fr
		st.fr = owner
		defer func() { st.fr = saved }()
	}
	assertName := func() string {
		n := st.ctx.oblName(in, "assert")
		if owner != nil {
			if i := strings.Index(n, "#"); i >= 0 {
				n = shortPkg(funcPkgPath(owner.fn)) + "." + funcKey(owner.fn) + n[i:]
			}
		}
		return n
	}
	for _, key := range hookKeys(st, in, t) {
		if owner != nil && strings.Contains(key, "#") {
			continue
		}
		if len(c.Hooks[key]) > 0 {
			if st.ctx.hooksFired == nil {
				st.ctx.hooksFired = map[string]bool{}
			}
			st.ctx.hooksFired[key] = true
		}
		for i, h := range c.Hooks[key] {
			if h.After != after {
				continue
			}
			env := st.specEnv("hook")
			env.scope = in.Block()
			if owner != nil {
				env.scope = site.Block()
			}
			names := paramNames(t)
			for j, n := range names {
				if j < len(t.args) {
					env.vars["$"+n] = t.args[j]
				}
			}
			for j, a := range t.args {
				env.vars[fmt.Sprintf("$arg%d", j)] = a
				env.vars[fmt.Sprintf("arg%d", j)] = a
			}
			if after && st.hookResult != nil {
				if st.hookResult.Tup != nil {
					env.results = st.hookResult.Tup
				} else {
					env.results = []Val{*st.hookResult}
				}
			}
			switch h.Kind {
			case "assert":
				tm, err := st.evalClause(env, h.Cl)
				name := assertName() + fmt.Sprintf("/%d", i+1)
				if err != nil {
					st.bindFail(name, err)
					continue
				}
				st.obligeNamed(name, "assert", st.posOf(in), tm, h.Cl.Text)
			case "assume":
				tm, err := st.evalClause(env, h.Cl)
				if err != nil {
					st.bindFail(assertName()+"/assume", err)
					continue
				}
				st.ctx.note("site-specific assumption in %s at call %s: %s", funcKey(st.fr.fn), key, h.Cl.Text)
				st.assume(tm)
			case "havoc":
				// site-specific frame of a callee that acts through a callback: the named
				// variables / fields may have any value afterwards (listed as an assumption)
				if err := st.havocNamed(env, h.Var); err != nil {
					st.bindFail(assertName()+"/havoc", err)
				} else {
					st.ctx.note("site-specific frame in %s at call %s: %s may change (callback)", funcKey(st.fr.fn), key, h.Var)
				}
			case "ghost":
				func() {
					defer func() {
						if r := recover(); r != nil {
							if se, ok := r.(specError); ok {
								st.bindFail(assertName()+"/ghost", fmt.Errorf("%s: %s", h.Cl.Text, se.msg))
								return
							}
							panic(r)
						}
					}()
					v := env.eval(h.Cl.Expr)
					st.ghost[h.Var] = v
					if st.dry != nil {
						st.dry.ghosts[h.Var] = true
					}
				}()
			}
		}
	}
}

func (e *Engine) runHooksAfter(st *State, in ssa.Instruction, t callTarget, r Val) {
	rr := r
	st.hookResult = &rr
	e.runHooks(st, in, t, true)
	st.hookResult = nil
}

// ---------------------------------------------------------------------------
// havocNamed gives a local variable (bare identifier) or a field location x.f an arbitrary value.
func (st *State) havocNamed(env *SpecEnv, loc string) (err error) {
	defer func() {
		if r := recover(); r != nil {
			switch x := r.(type) {
			case specError:
				err = fmt.Errorf("havoc %s: %s", loc, x.msg)
			case unsupported:
				err = fmt.Errorf("havoc %s: %s", loc, x.msg)
			default:
				panic(r)
			}
		}
	}()
	var p *PtrInfo
	if !strings.ContainsAny(loc, ".[(*") {
		// a local variable of the current frame
		bestCell := -1
		for v, rv := range st.fr.regs {
			a, ok := v.(*ssa.Alloc)
			if !ok || a.Comment != loc || rv.P == nil {
				continue
			}
			id := 0
			if rv.P.Kind == pkCell {
				if _, live := st.cells[rv.P.Cell]; !live {
					continue
				}
				id = rv.P.Cell
			}
			if p == nil || id > bestCell {
				p, bestCell = rv.P, id
			}
		}
		if p == nil {
			// the variable may have been renamed: the one with the recorded definition (bindings.go)
			eng := st.ctx.eng
			if fb := eng.bindings[bindingKey(st.fr.fn)]; fb != nil {
				if want, ok := fb.Locals[loc]; ok {
					fps := eng.allocFingerprints(st.fr.fn)
					for v, rv := range st.fr.regs {
						a, ok := v.(*ssa.Alloc)
						if !ok || rv.P == nil || fps[a] != want {
							continue
						}
						if rv.P.Kind == pkCell {
							if _, live := st.cells[rv.P.Cell]; !live {
								continue
							}
						}
						p = rv.P
					}
				}
			}
		}
		if p == nil {
			return fmt.Errorf("havoc %s: no such local variable", loc)
		}
	} else {
		ex, perr := parseSpecExpr("&(" + loc + ")")
		if perr != nil {
			return perr
		}
		pv := env.eval(ex)
		if pv.P == nil {
			return fmt.Errorf("havoc %s: not a location", loc)
		}
		p = pv.P
	}
	_, _, t := pathRange(p.Root, p.Path)
	fresh := st.freshVal(t, st.ctx.freshName("hv!site"))
	st.boundRefs(fresh)
	st.storePtr(p, fresh)
	return nil
}

// lock bookkeeping

type lockTouch struct {
	name string
	p    *PtrInfo
	ch   Term
}

func (st *State) touchLock(name string, p *PtrInfo, ch Term) {
	for _, l := range st.locks {
		if l.name == name {
			return
		}
	}
	st.locks = append(st.locks[:len(st.locks):len(st.locks)], lockTouch{name, p, ch})
}
