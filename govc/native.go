package main

// Native models of sync / atomic / context primitives (ghost state, not schedules).

import (
	"fmt"
	"go/types"
	"strings"

	"golang.org/x/tools/go/ssa"
)

func recvTypeName(fn *ssa.Function) string {
	r := fn.Signature.Recv()
	if r == nil {
		return ""
	}
	t := r.Type()
	if p, ok := t.(*types.Pointer); ok {
		t = p.Elem()
	}
	p, n := namedOrigin(t)
	return p + "." + n
}

// native returns true if the call was modelled natively.
func (e *Engine) native(st *State, in ssa.Instruction, t callTarget, k func(*State, Val)) bool {
	fn := t.fn
	inst := t.fn // the instantiated function: its signature has the concrete types
	if o := fn.Origin(); o != nil {
		fn = o
	}
	rt := recvTypeName(fn)
	name := fn.Name()
	subj := ""
	if ci, ok := in.(ssa.CallInstruction); ok && len(ci.Common().Args) > 0 {
		subj = subjectOf(ci.Common().Args[0])
	}
	leaf := func(i int) (*PtrInfo, Term) {
		p := t.args[0].P
		if p == nil {
			unsup("%s.%s on unstructured pointer", rt, name)
		}
		v := st.loadPtr(p)
		return p, v.L[i]
	}
	setLeaf := func(p *PtrInfo, i int, val Term) {
		v := st.loadPtr(p)
		nv := Val{T: v.T, L: append([]Term(nil), v.L...)}
		nv.L[i] = val
		st.storePtr(p, nv)
	}
	switch rt {
	case "sync.Mutex":
		switch name {
		case "Lock":
			p, held := leaf(0)
			st.oblige(in, "lock", Not(held), "Lock of "+subj+" while already held by this thread (self-deadlock)")
			setLeaf(p, 0, TTrue)
			st.touchLock(subj, p, Term{})
			st.blockingOp(in, "lock:"+subj)
			st.event("lock:"+subj, in.Pos())
			k(st, Val{})
			return true
		case "Unlock":
			p, held := leaf(0)
			st.oblige(in, "unlock", held, "Unlock of "+subj+" that is not held")
			setLeaf(p, 0, TFalse)
			st.touchLock(subj, p, Term{})
			st.event("unlock:"+subj, in.Pos())
			k(st, Val{})
			return true
		case "TryLock":
			p, held := leaf(0)
			ok := st.ctx.freshConst("trylock", SBool)
			st.assume(Implies(held, Not(ok)))
			setLeaf(p, 0, Or(held, ok))
			st.touchLock(subj, p, Term{})
			k(st, scalar(types.Typ[types.Bool], ok))
			return true
		}
	case "sync.RWMutex":
		switch name {
		case "Lock":
			p, w := leaf(0)
			_, r := leaf(1)
			st.oblige(in, "lock", And(Not(w), Eq(r, I(0))), "Lock of "+subj+" while held by this thread")
			setLeaf(p, 0, TTrue)
			st.touchLock(subj, p, Term{})
			st.event("lock:"+subj, in.Pos())
			k(st, Val{})
			return true
		case "Unlock":
			p, w := leaf(0)
			st.oblige(in, "unlock", w, "Unlock of "+subj+" that is not write-held")
			setLeaf(p, 0, TFalse)
			st.touchLock(subj, p, Term{})
			st.event("unlock:"+subj, in.Pos())
			k(st, Val{})
			return true
		case "RLock":
			p, w := leaf(0)
			_, r := leaf(1)
			st.oblige(in, "lock", Not(w), "RLock of "+subj+" while write-held by this thread")
			setLeaf(p, 1, Add(r, I(1)))
			st.touchLock(subj, p, Term{})
			st.event("rlock:"+subj, in.Pos())
			k(st, Val{})
			return true
		case "RUnlock":
			p, r := leaf(1)
			st.oblige(in, "unlock", Gt(r, I(0)), "RUnlock of "+subj+" that is not read-held")
			setLeaf(p, 1, Sub(r, I(1)))
			st.touchLock(subj, p, Term{})
			st.event("runlock:"+subj, in.Pos())
			k(st, Val{})
			return true
		}
	case "sync.WaitGroup":
		switch name {
		case "Add":
			p, c := leaf(0)
			setLeaf(p, 0, Add(c, t.args[1].term()))
			st.event("wg.add:"+subj, in.Pos(), t.args[1].term())
			k(st, Val{})
			return true
		case "Done":
			p, c := leaf(0)
			st.oblige(in, "unlock", Gt(c, I(0)), "WaitGroup.Done of "+subj+" without matching Add")
			setLeaf(p, 0, Sub(c, I(1)))
			st.event("wg.done:"+subj, in.Pos())
			k(st, Val{})
			return true
		case "Wait":
			st.blockingOp(in, "wait:"+subj)
			st.event("wg.wait:"+subj, in.Pos())
			k(st, Val{})
			return true
		}
	case "sync.Once":
		if name == "Do" {
			p, done := leaf(0)
			st.event("once.do:"+subj, in.Pos())
			f := t.args[1]
			e.fork(st, done,
				func(s *State) { k(s, Val{}) },
				func(s *State) {
					// set done first (the function runs at most once even if it re-enters)
					v := s.loadPtr(p)
					nv := Val{T: v.T, L: []Term{TTrue}}
					s.storePtr(p, nv)
					if f.C == nil {
						unsup("Once.Do with unknown function")
					}
					ct := callTarget{fn: f.C.Fn, closure: f.C, sig: f.C.Fn.Signature, name: f.C.Fn.Name()}
					if len(f.C.Bind) == 0 && len(f.C.Fn.FreeVars) == 0 {
						ct.closure = nil
					}
					ct.contract = e.specs.lookup(f.C.Fn)
					e.callResolved(s, in, ct, func(s2 *State, _ Val) { k(s2, Val{}) })
				})
			return true
		}
	case "sync/atomic.Bool", "sync/atomic.Int32", "sync/atomic.Int64", "sync/atomic.Uint32", "sync/atomic.Uint64", "sync/atomic.Pointer":
		resT := resultType(inst.Signature)
		switch name {
		case "Load":
			_, v := leaf(0)
			r := Val{T: resT, L: []Term{v}}
			st.decorate(&r)
			st.event("atomic.load:"+subj, in.Pos())
			k(st, r)
			return true
		case "Store":
			p, _ := leaf(0)
			st.frameCheck(in, p)
			setLeaf(p, 0, t.args[1].L[0])
			st.event("atomic.store:"+subj, in.Pos(), t.args[1].L[0])
			k(st, Val{})
			return true
		case "Swap":
			p, v := leaf(0)
			setLeaf(p, 0, t.args[1].L[0])
			r := Val{T: resT, L: []Term{v}}
			st.decorate(&r)
			st.event("atomic.swap:"+subj, in.Pos(), t.args[1].L[0])
			k(st, r)
			return true
		case "CompareAndSwap":
			p, v := leaf(0)
			ok := Eq(v, t.args[1].L[0])
			setLeaf(p, 0, Ite(ok, t.args[2].L[0], v))
			st.event("atomic.cas:"+subj, in.Pos())
			k(st, scalar(types.Typ[types.Bool], st.named(ok)))
			return true
		case "Add":
			p, v := leaf(0)
			nv := wrapTo(resT, Add(v, t.args[1].L[0]), false)
			setLeaf(p, 0, nv)
			k(st, scalar(resT, nv))
			return true
		}
	}
	full := fullName(fn)
	switch {
	case strings.HasPrefix(full, "time::") && rt == "time.Time":
		switch name {
		case "IsZero":
			k(st, scalar(types.Typ[types.Bool], Eq(t.args[0].L[0], I(0))))
			return true
		case "After":
			k(st, scalar(types.Typ[types.Bool], Gt(t.args[0].L[0], t.args[1].L[0])))
			return true
		case "Before":
			k(st, scalar(types.Typ[types.Bool], Lt(t.args[0].L[0], t.args[1].L[0])))
			return true
		case "Equal":
			k(st, scalar(types.Typ[types.Bool], Eq(t.args[0].L[0], t.args[1].L[0])))
			return true
		case "Add":
			r := st.freshVal(resultType(fn.Signature), st.ctx.freshName("time.add"))
			f := st.ctx.declareFun("timeadd", []string{SInt, SInt}, SInt)
			st.assume(Eq(r.L[0], Term{fmt.Sprintf("(%s %s %s)", f, t.args[0].L[0].S, t.args[1].L[0].S), SInt}))
			k(st, r)
			return true
		}
	case full == "time::Now":
		r := st.freshVal(resultType(fn.Signature), st.ctx.freshName("now"))
		st.assume(Gt(r.L[0], I(0)))
		k(st, r)
		return true
	}
	return false
}
