package main

// Value representation: every Go value is flattened into scalar SMT leaves
// (Int / Bool). Composite structure lives on the Go side only.

import (
	"fmt"
	"go/types"
	"math/big"
	"strings"

	"golang.org/x/tools/go/ssa"
)

type Leaf struct {
	Path string     // dotted path inside the root type, "" for scalars
	Sort string     // Int | Bool
	T    types.Type // Go type of the leaf (for range facts); nil for synthetic leaves
	Role string     // "", "arr","off","len","cap","ityp","ipay","held","ref", ...
}

type PtrKind int

const (
	pkHeap PtrKind = iota // object in the typed heap: (Root, Ref).Path
	pkElem                // element of a backing array: (Root=elem type, Ref=arr, Idx).Path
	pkCell                // local cell (non-escaping alloc), Go side only
)

type PtrInfo struct {
	Kind PtrKind
	Root types.Type
	Ref  Term
	Idx  Term
	Path []int
	Cell int
}

type Closure struct {
	Fn   *ssa.Function
	Bind []Val
}

// Val is a Go value in the symbolic state.
type Val struct {
	T   types.Type
	L   []Term
	P   *PtrInfo // pointer values
	C   *Closure // statically known function values
	Tup []Val    // tuples (multi-value results)
}

type unsupported struct{ msg string }

func unsup(format string, a ...any) { panic(unsupported{fmt.Sprintf(format, a...)}) }

var qualifier = func(p *types.Package) string { return p.Name() }

func typeKey(t types.Type) string {
	s := types.TypeString(t, func(p *types.Package) string { return p.Path() })
	s = strings.ReplaceAll(s, "github.com/ipni/go-libipni/", "")
	s = strings.ReplaceAll(s, "|", "!")
	s = strings.ReplaceAll(s, "\\", "!")
	return s
}

func isNamed(t types.Type, pkg, name string) bool {
	if a, ok := t.(*types.Alias); ok {
		t = types.Unalias(a)
	}
	n, ok := t.(*types.Named)
	if !ok {
		return false
	}
	o := n.Obj()
	return o.Pkg() != nil && o.Pkg().Path() == pkg && o.Name() == name
}

func namedOrigin(t types.Type) (pkg, name string) {
	t = types.Unalias(t)
	if n, ok := t.(*types.Named); ok {
		o := n.Origin().Obj()
		if o.Pkg() != nil {
			return o.Pkg().Path(), o.Name()
		}
		return "", o.Name()
	}
	return "", ""
}

// special single-leaf abstractions of library structs
func specialLeaves(t types.Type) ([]Leaf, bool) {
	pkg, name := namedOrigin(t)
	switch pkg + "." + name {
	case "sync.Mutex":
		return []Leaf{{"", SBool, nil, "held"}}, true
	case "sync.RWMutex":
		return []Leaf{{"w", SBool, nil, "held"}, {"r", SInt, nil, "readers"}}, true
	case "sync.Once":
		return []Leaf{{"", SBool, nil, "done"}}, true
	case "sync.WaitGroup":
		return []Leaf{{"", SInt, nil, "count"}}, true
	case "sync/atomic.Bool":
		return []Leaf{{"", SBool, nil, "aval"}}, true
	case "sync/atomic.Int32", "sync/atomic.Int64", "sync/atomic.Uint32", "sync/atomic.Uint64":
		return []Leaf{{"", SInt, nil, "aval"}}, true
	case "sync/atomic.Pointer":
		return []Leaf{{"", SInt, nil, "ref"}}, true
	case "time.Time":
		return []Leaf{{"", SInt, nil, "instant"}}, true
	case "bytes.Buffer":
		// abstract: content id (Bytes), see extern contracts
		return []Leaf{{"", SInt, nil, "bufcontent"}}, true
	}
	return nil, false
}

var leafCache = map[string][]Leaf{}

func leavesOf(t types.Type) []Leaf {
	key := typeKey(t)
	if l, ok := leafCache[key]; ok {
		return l
	}
	l := computeLeaves(t, map[string]bool{})
	leafCache[key] = l
	return l
}

func computeLeaves(t types.Type, seen map[string]bool) []Leaf {
	if l, ok := specialLeaves(t); ok {
		return l
	}
	switch u := t.Underlying().(type) {
	case *types.Basic:
		if u.Info()&types.IsBoolean != 0 {
			return []Leaf{{"", SBool, t, ""}}
		}
		if u.Info()&types.IsFloat != 0 || u.Info()&types.IsComplex != 0 {
			return []Leaf{{"", SInt, nil, "float"}}
		}
		return []Leaf{{"", SInt, t, ""}}
	case *types.Pointer, *types.Map, *types.Chan, *types.Signature:
		return []Leaf{{"", SInt, nil, "ref"}}
	case *types.Slice:
		return []Leaf{{"arr", SInt, nil, "arr"}, {"off", SInt, nil, "off"}, {"len", SInt, nil, "len"}, {"cap", SInt, nil, "cap"}}
	case *types.Interface:
		return []Leaf{{"ityp", SInt, nil, "ityp"}, {"ipay", SInt, nil, "ipay"}}
	case *types.Array:
		// array values are abstracted to an id naming an immutable content snapshot
		return []Leaf{{"", SInt, nil, "arrval"}}
	case *types.Struct:
		var out []Leaf
		for i := 0; i < u.NumFields(); i++ {
			f := u.Field(i)
			for _, l := range computeLeaves(f.Type(), seen) {
				p := f.Name()
				if l.Path != "" {
					p += "." + l.Path
				}
				out = append(out, Leaf{p, l.Sort, l.T, l.Role})
			}
		}
		return out
	case *types.Tuple:
		var out []Leaf
		for i := 0; i < u.Len(); i++ {
			for _, l := range computeLeaves(u.At(i).Type(), seen) {
				out = append(out, Leaf{fmt.Sprintf("%d.%s", i, l.Path), l.Sort, l.T, l.Role})
			}
		}
		return out
	case *types.TypeParam:
		unsup("type parameter %s", t)
	}
	unsup("type %s (%T)", t, t.Underlying())
	return nil
}

// fieldRange returns the leaf offset and count of field i of struct type t.
func fieldRange(t types.Type, i int) (off, n int) {
	st, ok := t.Underlying().(*types.Struct)
	if !ok {
		unsup("fieldRange on non-struct %s", t)
	}
	if _, sp := specialLeaves(t); sp {
		unsup("field access into abstracted type %s", t)
	}
	for j := 0; j < i; j++ {
		off += len(leavesOf(st.Field(j).Type()))
	}
	return off, len(leavesOf(st.Field(i).Type()))
}

// pathRange walks a field path from root and returns (offset, count, type).
func pathRange(root types.Type, path []int) (off, n int, t types.Type) {
	t = root
	n = len(leavesOf(root))
	for _, i := range path {
		o, c := fieldRange(t, i)
		off += o
		n = c
		t = t.Underlying().(*types.Struct).Field(i).Type()
	}
	return
}

func zeroTerm(sort string) Term {
	if sort == SBool {
		return TFalse
	}
	return I(0)
}

func zeroVal(t types.Type) Val {
	ls := leavesOf(t)
	v := Val{T: t, L: make([]Term, len(ls))}
	for i, l := range ls {
		v.L[i] = zeroTerm(l.Sort)
	}
	return v
}

func scalar(t types.Type, x Term) Val { return Val{T: t, L: []Term{x}} }

func (v Val) term() Term {
	if len(v.L) != 1 {
		unsup("scalar expected, got %d leaves of type %v", len(v.L), v.T)
	}
	return v.L[0]
}

// integer range of a basic type; ok=false if not an integer
func intRange(t types.Type) (lo, hi *big.Int, ok bool) {
	if t == nil {
		return nil, nil, false
	}
	b, isb := t.Underlying().(*types.Basic)
	if !isb || b.Info()&types.IsInteger == 0 {
		return nil, nil, false
	}
	bits, signed := 64, true
	switch b.Kind() {
	case types.Int8:
		bits = 8
	case types.Int16:
		bits = 16
	case types.Int32:
		bits = 32
	case types.Int64, types.Int:
		bits = 64
	case types.Uint8:
		bits, signed = 8, false
	case types.Uint16:
		bits, signed = 16, false
	case types.Uint32:
		bits, signed = 32, false
	case types.Uint64, types.Uint, types.Uintptr:
		bits, signed = 64, false
	case types.UntypedInt, types.UntypedRune:
		return nil, nil, false
	}
	one := big.NewInt(1)
	if signed {
		hi = new(big.Int).Sub(new(big.Int).Lsh(one, uint(bits-1)), one)
		lo = new(big.Int).Neg(new(big.Int).Lsh(one, uint(bits-1)))
	} else {
		lo = big.NewInt(0)
		hi = new(big.Int).Sub(new(big.Int).Lsh(one, uint(bits)), one)
	}
	return lo, hi, true
}

// wrapTo models Go's modular arithmetic exactly for a result x that is known
// to be within one modulus of the range (single + or -), or in general (mod).
func wrapTo(t types.Type, x Term, general bool) Term {
	lo, hi, ok := intRange(t)
	if !ok {
		return x
	}
	if n, isLit := x.IntLit(); isLit {
		m := new(big.Int).Add(new(big.Int).Sub(hi, lo), big.NewInt(1))
		r := new(big.Int).Sub(n, lo)
		r.Mod(r, m)
		r.Add(r, lo)
		return IBig(r)
	}
	m := new(big.Int).Add(new(big.Int).Sub(hi, lo), big.NewInt(1))
	if general {
		// ((x - lo) mod m) + lo
		return Add(app(SInt, "mod", Sub(x, IBig(lo)), IBig(m)), IBig(lo))
	}
	return Ite(Gt(x, IBig(hi)), Sub(x, IBig(m)), Ite(Lt(x, IBig(lo)), Add(x, IBig(m)), x))
}

func isInteger(t types.Type) bool {
	b, ok := t.Underlying().(*types.Basic)
	return ok && b.Info()&types.IsInteger != 0
}
func isString(t types.Type) bool {
	b, ok := t.Underlying().(*types.Basic)
	return ok && b.Info()&types.IsString != 0
}
func isBoolean(t types.Type) bool {
	b, ok := t.Underlying().(*types.Basic)
	return ok && b.Info()&types.IsBoolean != 0
}
func isUnsigned(t types.Type) bool {
	b, ok := t.Underlying().(*types.Basic)
	return ok && b.Info()&types.IsUnsigned != 0
}
