package main

// Rename fallback. Contracts live in a separate comment-only file, so a local variable,
// parameter or named result that a contract mentions can be renamed (or shadowed
// differently, or a range loop rewritten as an index loop) in the code without the
// contract noticing. To keep such a harmless edit from turning into a bind failure,
// /verif/bindings.json records, for every function under contract,
//   - parameter, result and captured-variable names by position, and
//   - for every (contract clause, identifier) that resolved to a local variable, what that
//     variable IS: "receives result j of the k-th call of f", "value of the k-th range",
//     "the hidden index of range loop k", "unit counter of loop k", "k-th make(map)", ...
// At check time a contract identifier is resolved by name first; if the variable found has
// a different definition than recorded (or none is found), the variable with the recorded
// definition is used instead, provided it is unique and in scope. Range-loop index and
// unit loop counter of the same loop stand in for each other (with the offset that the
// point of evaluation requires). Every substitution is listed in the evidence.
// Soundness is not affected: every clause is still proved against the code; the file only
// chooses which variable a name in a clause denotes. It is regenerated (govc bindings) on
// a tree on which all checks pass and is never written by a check.

import (
	"crypto/sha1"
	"encoding/json"
	"flag"
	"fmt"
	"go/constant"
	"go/token"
	"go/types"
	"os"
	"strings"
	"sync"

	"golang.org/x/tools/go/ssa"
)

type FuncBinding struct {
	Params   []string          `json:"params,omitempty"`
	Results  []string          `json:"results,omitempty"`
	FreeVars []string          `json:"freevars,omitempty"`
	Clauses  map[string]string `json:"clauses,omitempty"` // "<clause hash>:<ident>" -> fingerprint
	Locals   map[string]string `json:"locals,omitempty"`  // name -> fingerprint, for every local whose name and definition are unique
}

var bindingsFile = "/verif/bindings.json"

func loadBindings() map[string]*FuncBinding {
	b := map[string]*FuncBinding{}
	if p := os.Getenv("GOVC_BINDINGS"); p != "" {
		bindingsFile = p
	}
	data, err := os.ReadFile(bindingsFile)
	if err != nil {
		return b
	}
	json.Unmarshal(data, &b)
	return b
}

func bindingKey(fn *ssa.Function) string {
	return shortPkg(funcPkgPath(fn)) + "." + funcKey(fn)
}

func clauseHash(text string) string {
	h := sha1.Sum([]byte(strings.Join(strings.Fields(text), " ")))
	return fmt.Sprintf("%x", h[:5])
}

var fpMu sync.Mutex

// allocFingerprints describes how each named local variable of fn is defined, independent of its name.
func (e *Engine) allocFingerprints(fn *ssa.Function) map[*ssa.Alloc]string {
	fpMu.Lock()
	defer fpMu.Unlock()
	if e.fpCache == nil {
		e.fpCache = map[*ssa.Function]map[*ssa.Alloc]string{}
	}
	if m, ok := e.fpCache[fn]; ok {
		return m
	}
	out := map[*ssa.Alloc]string{}
	e.fpCache[fn] = out
	callOrd := map[ssa.Instruction]int{}
	perCallee := map[string]int{}
	kindOrd := map[ssa.Instruction]int{}
	perKind := map[string]int{}
	tname := func(t types.Type) string {
		return types.TypeString(t, func(p *types.Package) string { return p.Name() })
	}
	kindOf := func(in ssa.Instruction) string {
		switch x := in.(type) {
		case *ssa.Next:
			return "range"
		case *ssa.TypeAssert:
			return "typeassert"
		case *ssa.Lookup:
			return "lookup"
		case *ssa.MakeMap:
			return "makemap"
		case *ssa.MakeSlice:
			return "makeslice"
		case *ssa.MakeChan:
			return "makechan"
		case *ssa.MakeClosure:
			return "closure"
		case *ssa.Slice:
			return "slice"
		case *ssa.Alloc:
			if x.Comment == "" || x.Heap && (x.Comment == "complit" || x.Comment == "new") {
				return "new:" + tname(x.Type())
			}
		case *ssa.UnOp:
			if x.Op == token.MUL {
				switch a := x.X.(type) {
				case *ssa.FieldAddr:
					st := a.X.Type().Underlying().(*types.Pointer).Elem().Underlying().(*types.Struct)
					return "load:." + st.Field(a.Field).Name()
				case *ssa.IndexAddr:
					return "load:elem"
				case *ssa.Global:
					return "load:global:" + a.Name()
				}
			}
			if x.Op == token.ARROW {
				return "recv"
			}
		}
		return ""
	}
	for _, b := range fn.Blocks {
		for _, in := range b.Instrs {
			if c, ok := in.(*ssa.Call); ok {
				n := calleeName(c.Common())
				perCallee[n]++
				callOrd[c] = perCallee[n]
			}
			if k := kindOf(in); k != "" {
				perKind[k]++
				kindOrd[in] = perKind[k]
			}
		}
	}
	var describe func(v ssa.Value, depth int) string
	describe = func(v ssa.Value, depth int) string {
		if depth > 3 {
			return ""
		}
		switch x := v.(type) {
		case *ssa.Parameter:
			for i, p := range fn.Params {
				if p == x {
					return fmt.Sprintf("param:%d", i)
				}
			}
		case *ssa.Call:
			return fmt.Sprintf("call:%s#%d", calleeName(x.Common()), callOrd[x])
		case *ssa.Extract:
			if d := describe(x.Tuple, depth+1); d != "" {
				return fmt.Sprintf("%s.%d", d, x.Index)
			}
		case *ssa.ChangeType:
			return describe(x.X, depth+1)
		case *ssa.MakeInterface:
			return describe(x.X, depth+1)
		case *ssa.FreeVar:
			return "freevar:" + x.Name()
		}
		if in, ok := v.(ssa.Instruction); ok {
			if k := kindOf(in); k != "" {
				return fmt.Sprintf("%s#%d", k, kindOrd[in])
			}
		}
		return ""
	}
	// loop counters
	loops := e.loopsOf(fn)
	innermost := func(b *ssa.BasicBlock) *loopInfo {
		var best *loopInfo
		for _, li := range loops {
			if li.body[b] && (best == nil || len(li.body) < len(best.body)) {
				best = li
			}
		}
		return best
	}
	counterOf := func(a *ssa.Alloc) string {
		et, ok := a.Type().Underlying().(*types.Pointer)
		if !ok || !isInteger(et.Elem()) {
			return ""
		}
		var incLoop *loopInfo
		nInc, nInit, bad := 0, 0, false
		initOK := false
		for _, b := range fn.Blocks {
			for _, in := range b.Instrs {
				s, ok := in.(*ssa.Store)
				if !ok || s.Addr != ssa.Value(a) {
					continue
				}
				if bo, ok := s.Val.(*ssa.BinOp); ok && bo.Op == token.ADD {
					ld, ok1 := bo.X.(*ssa.UnOp)
					c, ok2 := bo.Y.(*ssa.Const)
					if ok1 && ok2 && ld.Op == token.MUL && ld.X == ssa.Value(a) && c.Value != nil && c.Value.Kind() == constant.Int && constant.Compare(c.Value, token.EQL, constant.MakeInt64(1)) {
						nInc++
						incLoop = innermost(b)
						continue
					}
				}
				if c, ok := s.Val.(*ssa.Const); ok && c.Value != nil && c.Value.Kind() == constant.Int {
					nInit++
					if a.Comment == "rangeindex" {
						initOK = constant.Compare(c.Value, token.EQL, constant.MakeInt64(-1))
					} else {
						initOK = constant.Sign(c.Value) == 0
					}
					continue
				}
				bad = true
			}
		}
		if nInit == 0 && a.Comment != "rangeindex" {
			// `var i int`: zero-initialised without a store
			nInit, initOK = 1, true
		}
		if bad || nInc != 1 || nInit != 1 || !initOK || incLoop == nil {
			return ""
		}
		if a.Comment == "rangeindex" {
			return fmt.Sprintf("rangeindex:loop%d", incLoop.ordinal)
		}
		return fmt.Sprintf("counter:loop%d", incLoop.ordinal)
	}
	typeOrd := map[string]int{}
	for _, b := range fn.Blocks {
		for _, in := range b.Instrs {
			a, ok := in.(*ssa.Alloc)
			if !ok || a.Comment == "" || a.Comment == "complit" || a.Comment == "new" || strings.Contains(a.Comment, "$") {
				continue
			}
			fp := counterOf(a)
			if fp == "" {
			search:
				for _, b2 := range fn.Blocks {
					for _, in2 := range b2.Instrs {
						if s, ok := in2.(*ssa.Store); ok && s.Addr == ssa.Value(a) {
							fp = describe(s.Val, 0)
							break search
						}
					}
				}
			}
			if fp == "" {
				ts := tname(a.Type())
				typeOrd[ts]++
				fp = fmt.Sprintf("var:%s#%d", ts, typeOrd[ts])
			}
			out[a] = fp
		}
	}
	if res := fn.Signature.Results(); res != nil && len(fn.Blocks) > 0 {
		for i := 0; i < res.Len(); i++ {
			if n := res.At(i).Name(); n != "" && n != "_" {
				for a := range out {
					if a.Comment == n && a.Block() == fn.Blocks[0] && strings.HasPrefix(out[a], "var:") {
						out[a] = fmt.Sprintf("result:%d", i)
					}
				}
			}
		}
	}
	return out
}

// renamedIdent: the current name of the parameter / named result / captured variable
// that the contract calls `name`, or "".
func (e *Engine) renamedIdent(fn *ssa.Function, name string) string {
	if fn == nil || e.bindings == nil {
		return ""
	}
	fb := e.bindings[bindingKey(fn)]
	if fb == nil {
		return ""
	}
	if len(fb.Params) == len(fn.Params) {
		for i, p := range fb.Params {
			if p == name && fn.Params[i].Name() != name {
				return fn.Params[i].Name()
			}
		}
	}
	if res := fn.Signature.Results(); res != nil && len(fb.Results) == res.Len() {
		for i, r := range fb.Results {
			if r == name && r != "" && res.At(i).Name() != name && res.At(i).Name() != "" {
				return res.At(i).Name()
			}
		}
	}
	if len(fb.FreeVars) == len(fn.FreeVars) {
		for i, v := range fb.FreeVars {
			if v == name && fn.FreeVars[i].Name() != name {
				return fn.FreeVars[i].Name()
			}
		}
	}
	return ""
}

// stableNames maps the current names of fn's parameters, captured variables and locals to the names they
// had when the bindings file was made (matched by position / definition). Event names, hook keys and
// obligation names are formed from variable names (lock:mu, call:f, ...); translating them keeps the
// contract's vocabulary stable under renames.
func (e *Engine) stableNames(fn *ssa.Function) map[string]string {
	if fn == nil || e.bindings == nil {
		return nil
	}
	fpMu.Lock()
	if e.stableCache == nil {
		e.stableCache = map[*ssa.Function]map[string]string{}
	}
	if m, ok := e.stableCache[fn]; ok {
		fpMu.Unlock()
		return m
	}
	fpMu.Unlock()
	out := map[string]string{}
	fb := e.bindings[bindingKey(fn)]
	if fb != nil {
		cur := map[string]bool{}
		for _, p := range fn.Params {
			cur[p.Name()] = true
		}
		for _, v := range fn.FreeVars {
			cur[v.Name()] = true
		}
		fps := e.allocFingerprints(fn)
		for a := range fps {
			cur[a.Comment] = true
		}
		add := func(now, then string) {
			if now != then && then != "" && now != "" && !cur[then] {
				out[now] = then
			}
		}
		if len(fb.Params) == len(fn.Params) {
			for i, p := range fn.Params {
				add(p.Name(), fb.Params[i])
			}
		}
		if len(fb.FreeVars) == len(fn.FreeVars) {
			for i, v := range fn.FreeVars {
				add(v.Name(), fb.FreeVars[i])
			}
		}
		byFP := map[string]string{}
		for n, fp := range fb.Locals {
			byFP[fp] = n
		}
		cnt := map[string]int{}
		for _, fp := range fps {
			cnt[fp]++
		}
		for a, fp := range fps {
			if then, ok := byFP[fp]; ok && cnt[fp] == 1 {
				add(a.Comment, then)
			}
		}
	}
	fpMu.Lock()
	e.stableCache[fn] = out
	fpMu.Unlock()
	return out
}

// stableSubject translates one subject name (see stableNames).
func (e *Engine) stableSubject(fn *ssa.Function, subj string) string {
	if m := e.stableNames(fn); m != nil {
		if then, ok := m[subj]; ok {
			return then
		}
	}
	return subj
}

// stableEventName translates the subject part(s) of an event name: "kind:subject" or "select{k:s,k:s}".
func (e *Engine) stableEventName(fn *ssa.Function, name string) string {
	m := e.stableNames(fn)
	if len(m) == 0 {
		return name
	}
	one := func(s string) string {
		if i := strings.Index(s, ":"); i >= 0 {
			if then, ok := m[s[i+1:]]; ok {
				return s[:i+1] + then
			}
		}
		return s
	}
	if strings.HasPrefix(name, "select{") && strings.HasSuffix(name, "}") {
		parts := strings.Split(name[len("select{"):len(name)-1], ",")
		for i := range parts {
			parts[i] = one(parts[i])
		}
		return "select{" + strings.Join(parts, ",") + "}"
	}
	return one(name)
}

// recordedFingerprint: what the identifier `name` of the clause being evaluated denoted
// when the bindings file was made.
func (e *Engine) recordedFingerprint(fn *ssa.Function, clause, name string) string {
	if clause == "" || e.bindings == nil {
		return ""
	}
	if fb := e.bindings[bindingKey(fn)]; fb != nil {
		return fb.Clauses[clauseHash(clause)+":"+name]
	}
	return ""
}

func (e *Engine) recordBinding(fn *ssa.Function, clause, name, fp string) {
	if e.recording == nil || clause == "" || fp == "" {
		return
	}
	fpMu.Lock()
	defer fpMu.Unlock()
	k := bindingKey(fn)
	m := e.recording[k]
	if m == nil {
		m = map[string]string{}
		e.recording[k] = m
	}
	key := clauseHash(clause) + ":" + name
	if old, ok := m[key]; ok && old != fp {
		m[key] = "!ambiguous"
		return
	}
	m[key] = fp
}

// counterpart: range index and unit counter of the same loop stand in for each other.
func counterpart(fp string) string {
	if strings.HasPrefix(fp, "rangeindex:") {
		return "counter:" + strings.TrimPrefix(fp, "rangeindex:")
	}
	if strings.HasPrefix(fp, "counter:") {
		return "rangeindex:" + strings.TrimPrefix(fp, "counter:")
	}
	return ""
}

func cmdBindings(args []string) {
	fs := flag.NewFlagSet("bindings", flag.ExitOnError)
	pkg := fs.String("pkg", "", "package patterns, comma separated")
	out := fs.String("o", bindingsFile, "output file")
	fs.Parse(args)
	e, err := loadEngine(repoDir, strings.Split(*pkg, ","), "/verif/contracts", "/verif/extern")
	if err != nil {
		fmt.Fprintln(os.Stderr, err)
		os.Exit(2)
	}
	e.bindings = nil
	e.recording = map[string]map[string]string{}
	e.workdir = mkWorkdir()
	defer os.RemoveAll(e.workdir)
	all := map[string]*FuncBinding{}
	bad := 0
	for _, p := range e.tpkgs {
		for _, id := range e.specs.keysFor(p.PkgPath) {
			c := e.specs.Contracts[id]
			if c.Iface {
				continue
			}
			fn := e.findFunc(c.PkgPath, c.Key)
			if fn == nil || len(fn.Blocks) == 0 {
				continue
			}
			fb := &FuncBinding{}
			for _, p := range fn.Params {
				fb.Params = append(fb.Params, p.Name())
			}
			if res := fn.Signature.Results(); res != nil {
				for i := 0; i < res.Len(); i++ {
					fb.Results = append(fb.Results, res.At(i).Name())
				}
			}
			for _, fv := range fn.FreeVars {
				fb.FreeVars = append(fb.FreeVars, fv.Name())
			}
			fb.Locals = map[string]string{}
			{
				fps := e.allocFingerprints(fn)
				byName := map[string][]string{}
				cnt := map[string]int{}
				for a, fp := range fps {
					byName[a.Comment] = append(byName[a.Comment], fp)
					cnt[fp]++
				}
				for n, l := range byName {
					if len(l) == 1 && cnt[l[0]] == 1 {
						fb.Locals[n] = l[0]
					}
				}
			}
			all[bindingKey(fn)] = fb
			if c.NoBody {
				continue
			}
			// the bindings are those of a tree on which the function verifies
			rep := e.verifyFunc(fn, c)
			for _, r := range rep.Results {
				if r.Verdict != "discharged" {
					bad++
					fmt.Printf("NOT-DISCHARGED %s\n", r.Name)
				}
			}
		}
	}
	for k, m := range e.recording {
		fb := all[k]
		if fb == nil {
			continue
		}
		fb.Clauses = map[string]string{}
		for ck, fp := range m {
			if fp != "!ambiguous" {
				fb.Clauses[ck] = fp
			}
		}
	}
	if bad > 0 {
		fmt.Fprintln(os.Stderr, "bindings: refusing to write: the tree does not verify")
		os.Exit(1)
	}
	data, _ := json.MarshalIndent(all, "", " ")
	if err := os.WriteFile(*out, append(data, '\n'), 0o644); err != nil {
		fmt.Fprintln(os.Stderr, err)
		os.Exit(2)
	}
	n := 0
	for _, fb := range all {
		n += len(fb.Clauses)
	}
	fmt.Printf("bindings: %d functions, %d clause identifiers -> %s\n", len(all), n, *out)
}
