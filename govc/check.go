package main

// `govc check`: the per-property check used by MANIFEST.json.

import (
	"encoding/json"
	"flag"
	"fmt"
	"os"
	"path/filepath"
	"sort"
	"strconv"
	"strings"
	"time"
)

type PropConf struct {
	Packages    []string  `json:"packages"`
	NotDecided  []string  `json:"not_decided"`
	Assumptions []string  `json:"assumptions"`
	Standins    []Standin `json:"bounded_standins"`
	Mutants     []string  `json:"mutants"`
}

type Standin struct {
	Name  string `json:"name"`
	Pkg   string `json:"pkg"`   // package dir relative to /repo
	File  string `json:"file"`  // test file under /verif/replay
	Run   string `json:"run"`   // -run pattern
	Bound string `json:"bound"` // stated bound
	Quick bool   `json:"quick"` // also run in quick tier
}

type Finding struct {
	Status     string `json:"status"` // known | fixed
	Property   string `json:"property"`
	Obligation string `json:"obligation"`
	What       string `json:"what"`
	Commit     string `json:"commit,omitempty"`
}

type ReplayFile struct {
	Property          string            `json:"property"`
	Obligation        string            `json:"obligation"`
	Kind              string            `json:"kind"`
	Function          string            `json:"function"`
	Package           string            `json:"package"`
	Pos               string            `json:"pos"`
	Desc              string            `json:"desc"`
	Verdict           string            `json:"solver_verdict"`
	Solver            string            `json:"solver"`
	Model             map[string]string `json:"model,omitempty"`
	SolverOut         string            `json:"solver_output,omitempty"`
	Query             string            `json:"query,omitempty"`
	Replay            *ReplayOutcome    `json:"replay,omitempty"`
	FailingInputFound bool              `json:"failing_input_found"`
	Note              string            `json:"note,omitempty"`
}

const verifDir = "/verif"

// outDir: where evidence and replay files go (the selftest redirects it away from /verif)
var outDir = func() string {
	if d := os.Getenv("GOVC_OUT"); d != "" {
		return d
	}
	return verifDir
}()

func loadProps() map[string]*PropConf {
	data, err := os.ReadFile(filepath.Join(verifDir, "props.json"))
	if err != nil {
		fmt.Fprintln(os.Stderr, "props.json:", err)
		os.Exit(2)
	}
	m := map[string]*PropConf{}
	if err := json.Unmarshal(data, &m); err != nil {
		fmt.Fprintln(os.Stderr, "props.json:", err)
		os.Exit(2)
	}
	return m
}

func loadFindings() []Finding {
	var f struct {
		Findings []Finding `json:"findings"`
	}
	data, err := os.ReadFile(filepath.Join(verifDir, "known_findings.json"))
	if err != nil {
		return nil
	}
	_ = json.Unmarshal(data, &f)
	return f.Findings
}

func cmdCheck(args []string) {
	fs := flag.NewFlagSet("check", flag.ExitOnError)
	prop := fs.String("prop", "", "property id")
	tier := fs.String("tier", "quick", "quick|thorough")
	fs.Parse(args)
	if t := os.Getenv("VERIF_TIER"); t != "" && *tier == "" {
		*tier = t
	}
	seed := 0
	if s := os.Getenv("VERIF_SEED"); s != "" {
		seed, _ = strconv.Atoi(s)
	}
	start := time.Now()
	props := loadProps()
	pc := props[*prop]
	if pc == nil {
		fmt.Fprintf(os.Stderr, "property %s is not configured\n", *prop)
		os.Exit(2)
	}
	e, err := loadEngine(repoDir, pc.Packages, filepath.Join(verifDir, "contracts"), filepath.Join(verifDir, "extern"))
	if err != nil {
		fmt.Fprintf(os.Stderr, "cannot load /repo (exit 2: the check could not run): %v\n", err)
		os.Exit(2)
	}
	e.workdir = mkWorkdir()
	defer os.RemoveAll(e.workdir)
	if *tier == "thorough" {
		e.mode = "all"
		solverTimeout = 20 * time.Second
	}
	var reps []*FuncReport
	var missing []string
	for _, p := range e.tpkgs {
		for _, id := range e.specs.keysFor(p.PkgPath) {
			c := e.specs.Contracts[id]
			if c.Iface || c.NoBody {
				continue
			}
			has := false
			for _, pr := range c.Props {
				if pr == *prop {
					has = true
				}
			}
			if !has {
				continue
			}
			fn := e.findFunc(c.PkgPath, c.Key)
			if fn == nil {
				missing = append(missing, shortPkg(c.PkgPath)+"."+c.Key)
				continue
			}
			reps = append(reps, e.verifyFunc(fn, c))
		}
	}
	findings := loadFindings()
	known := func(name string) *Finding {
		for i := range findings {
			f := &findings[i]
			if f.Status == "known" && f.Property == *prop && f.Obligation == name {
				return f
			}
		}
		return nil
	}
	replayDir := filepath.Join(outDir, "replays", *prop)
	os.RemoveAll(replayDir)
	total, discharged := 0, 0
	bySolver := map[string]int{}
	var solverMs int64
	var funcs []string
	var samples []map[string]any
	notes := map[string]bool{}
	var violations []string
	var knownHit []string
	toolErrors := 0
	vac := map[string]any{}
	var outOfSubset []string
	violate := func(rf *ReplayFile) {
		os.MkdirAll(replayDir, 0o755)
		path := filepath.Join(replayDir, sanitize(rf.Obligation)+".json")
		data, _ := json.MarshalIndent(rf, "", " ")
		os.WriteFile(path, data, 0o644)
		line := fmt.Sprintf("VIOLATION property=%s replay=%s", *prop, path)
		if !rf.FailingInputFound {
			line += " no-failing-input-found"
		}
		violations = append(violations, line)
		fmt.Printf("  obligation %s failed: %s (%s)\n", rf.Obligation, rf.Desc, rf.Pos)
	}
	for _, m := range missing {
		violate(&ReplayFile{Property: *prop, Obligation: m + "#bind[function]", Kind: "bind", Function: m,
			Desc: "contract names a function that no longer exists in /repo", Verdict: "bind-failure"})
		total++
	}
	expectedSeen := map[string]bool{}
	for _, rep := range reps {
		funcs = append(funcs, rep.Pkg+"."+rep.Key)
		for _, n := range rep.Notes {
			notes[n] = true
		}
		if rep.Trusted != "" {
			notes["trusted body (not verified): "+rep.Pkg+"."+rep.Key+" — "+rep.Trusted] = true
			continue
		}
		if rep.Unsupported != "" {
			outOfSubset = append(outOfSubset, rep.Pkg+"."+rep.Key+": "+rep.Unsupported)
			total++
			violate(&ReplayFile{Property: *prop, Obligation: rep.Pkg + "." + rep.Key + "#subset", Kind: "subset", Function: rep.Key, Package: rep.Pkg,
				Desc: "function left the verifier's subset or its contract no longer binds: " + rep.Unsupported, Verdict: "undecided"})
			continue
		}
		if rep.Vacuity != "" {
			toolErrors++
			fmt.Printf("TOOL-ERROR vacuity in %s.%s: %s\n", rep.Pkg, rep.Key, rep.Vacuity)
		}
		vac[rep.Pkg+"."+rep.Key] = map[string]any{"returns_generated": rep.Returns, "cover_queries": rep.Covers, "reachable_return": rep.Vacuity == ""}
		for _, r := range rep.Results {
			total++
			expectedSeen[r.Name] = true
			solverMs += r.Ms
			switch r.Verdict {
			case "discharged", "discharged-by-one":
				discharged++
				bySolver[r.Solver]++
				if len(samples) < 6 && r.Solver != "fold" {
					samples = append(samples, map[string]any{"obligation": r.Name, "kind": r.Kind, "desc": r.Desc, "solver": r.Solver, "ms": r.Ms, "smt_bytes": r.Bytes, "paths": r.Paths})
				}
			case "solver-disagreement":
				toolErrors++
				fmt.Printf("TOOL-ERROR solver disagreement on %s: %v\n", r.Name, r.All)
			default:
				if f := known(r.Name); f != nil {
					fmt.Printf("KNOWN-FINDING: property=%s %s — %s\n", *prop, r.Name, f.What)
					knownHit = append(knownHit, r.Name)
					continue
				}
				rf := &ReplayFile{Property: *prop, Obligation: r.Name, Kind: r.Kind, Function: rep.Key, Package: rep.Pkg, Pos: r.Pos, Desc: r.Desc,
					Verdict: r.Verdict, Solver: r.Solver, Model: r.Model, SolverOut: r.Raw, Query: r.Query}
				if r.Verdict != "failed" {
					rf.Note = "the solver returned no model (unknown/timeout); the obligation passed on the unchanged tree and does not now"
				}
				tryReplay(e, rep, r, rf)
				violate(rf)
			}
		}
	}
	// expected explicit obligations must still be generated
	if data, err := os.ReadFile(filepath.Join(verifDir, "expected", *prop+".txt")); err == nil {
		for _, ln := range strings.Split(string(data), "\n") {
			ln = strings.TrimSpace(ln)
			if ln == "" || strings.HasPrefix(ln, "#") || expectedSeen[ln] {
				continue
			}
			skip := false
			for _, o := range outOfSubset {
				if strings.HasPrefix(ln, strings.SplitN(o, ":", 2)[0]+"#") {
					skip = true
				}
			}
			for _, m := range missing {
				if strings.HasPrefix(ln, m+"#") {
					skip = true
				}
			}
			if skip {
				continue
			}
			total++
			violate(&ReplayFile{Property: *prop, Obligation: ln, Kind: "bind", Desc: "an obligation that is discharged on the unchanged tree is no longer generated (contract or function changed shape)", Verdict: "undecided"})
		}
	}
	// bounded stand-ins
	var standinRes []map[string]any
	for _, sd := range pc.Standins {
		if *tier != "thorough" && !sd.Quick {
			continue
		}
		out := runStandin(sd, seed)
		standinRes = append(standinRes, map[string]any{"name": sd.Name, "bound": sd.Bound, "label": "bounded (not counted as proved)", "passed": out.Passed, "cases": out.Cases, "seconds": out.Seconds})
		if !out.Passed {
			os.MkdirAll(replayDir, 0o755)
			path := filepath.Join(replayDir, "standin_"+sanitize(sd.Name)+".json")
			data, _ := json.MarshalIndent(map[string]any{"property": *prop, "standin": sd, "output": out.Output, "failing_input_found": true}, "", " ")
			os.WriteFile(path, data, 0o644)
			violations = append(violations, fmt.Sprintf("VIOLATION property=%s replay=%s", *prop, path))
		}
	}
	if total == 0 {
		toolErrors++
		fmt.Println("TOOL-ERROR no obligations were generated (vacuous check)")
	}
	var assumptions []string
	for n := range notes {
		assumptions = append(assumptions, n)
	}
	assumptions = append(assumptions, pc.Assumptions...)
	sort.Strings(assumptions)
	assumptions = append(assumptions, droppedByExtraction...)
	sort.Strings(funcs)
	if len(samples) == 0 {
		samples = append(samples, map[string]any{"note": "all obligations folded to true syntactically"})
	}
	cs := map[string]string{}
	for k, v := range e.contractSource {
		cs[k] = v
	}
	ev := map[string]any{
		"property_id": *prop,
		"tier":        *tier,
		"seed":        seed,
		"level":       "proof",
		"wall_s":      time.Since(start).Seconds(),
		"violations":  len(violations),
		"assumptions": assumptions,
		"coverage": map[string]any{
			"obligations":              total,
			"discharged":               discharged + len(knownHit)*0,
			"checker_cmd":              fmt.Sprintf("/verif/check %s %s  (govc: VCs over go/ssa NaiveForm of /repo's working tree; z3 4.8.12 / z3 5.1.0 / cvc5 1.0.x portfolio)", *prop, *tier),
			"trusted_base":             []string{"go/packages + go/types + go/ssa (x/tools v0.29.0)", "the VC generator /verif/govc (unverified; guarded by the must-fail selftest corpus and vacuity covers)", "z3 4.8.12, z3 5.1.0, cvc5 1.0.x (thorough: every obligation needs unsat from two solvers)", "assumed contracts in /verif/extern/*.spec (listed under assumptions when used)"},
			"samples":                  samples,
			"functions_under_contract": funcs,
			"by_solver":                bySolver,
			"solver_ms_total":          solverMs,
			"known_findings_hit":       knownHit,
			"not_decided":              pc.NotDecided,
			"bounded_standins":         standinRes,
			"vacuity":                  vac,
			"out_of_subset":            outOfSubset,
			"contract_source":          cs,
			"explanation":              "every obligation is a verification condition generated from the current source of /repo and discharged (unsat of path condition and negated goal) by an SMT solver; integers are modelled exactly (mathematical Int with Go wrap-around), memory as typed heaps",
		},
	}
	os.MkdirAll(filepath.Join(outDir, "evidence"), 0o755)
	data, _ := json.MarshalIndent(ev, "", " ")
	os.WriteFile(filepath.Join(outDir, "evidence", *prop+".json"), data, 0o644)
	fmt.Printf("property %s [%s]: %d obligations, %d discharged, %d known findings, %d violations, %d functions, %.1fs\n",
		*prop, *tier, total, discharged, len(knownHit), len(violations), len(funcs), time.Since(start).Seconds())
	for _, v := range violations {
		fmt.Println(v)
	}
	if toolErrors > 0 && len(violations) == 0 {
		os.Exit(2)
	}
	if len(violations) > 0 {
		os.Exit(1)
	}
}

var droppedByExtraction = []string{
	"extraction drops: panics as values / recover; goroutine interleavings (one thread is executed; locks, channels, WaitGroups are ghost state); wall-clock time; reflection; byte contents of strings and []byte except through the abstract content() theory; floating point; memory exhaustion other than make-size obligations; the Go memory model",
	"aliasing: a pointer parameter or loaded pointer of type *T addresses a whole T object, never the interior of another struct; hidden state behind interface values is disjoint from the structs of the package under verification",
}
